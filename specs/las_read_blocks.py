"""Blocks of LASFile.read (extracted mechanically, pyvc/blocks.py) and the small
reader functions around them: R1 steering update, R3 ~Other loop, K2 section kind,
K6 numpy-engine row arithmetic  (C02, C05, C07, C09)."""
import z3
from pyvc.values import *
from pyvc.spec import Contract
from pyvc import blocks as BL
from .common import *
from . import las_items as LI
from . import reader_header as RH
from . import writer as W      # LASFile class model

k, q = z3.Int("k"), z3.Int("q")


def block_verifier(qual, start, end, module, occurrence=0):
    def verify_with(E, c):
        body, fn = BL.find_block(E, qual, start, end, occurrence)
        return E.verify(c, fnode=fn, body=body, module=module)
    return verify_with


# ---------------------------------------------------------------- R3: the ~Other loop
def r3_pre(c):
    t, e = c.a["first_line"].t, c.a["last_line"].t
    return [("offset-is-the-title's", c.a["k"].t == cookie(t)),
            ("title-in-file", z3.And(0 <= t, t < NLINES, t <= e, e < NLINES, T(t))),
            ("no-title-inside-the-body", forall(k, z3.Implies(z3.And(t < k, k <= e), z3.Not(T(k))))),
            ("body-ends-at-next-title-or-eof", z3.Or(e == NLINES - 1, T(e + 1)))]


def r3_inv(c):
    t, e = c.a["first_line"].t, c.a["last_line"].t
    i = c.i
    m = z3.If(i >= 1, i - 1, 0)
    contents = c.v("contents")
    return [("cursor-start", c.x["cur0"] == t),
            ("line_no", c.v("line_no").t == t + m),
            ("within-body", z3.Or(t + m < e, z3.And(i == 0, t == e), z3.And(i == 1, t == e))),
            ("one-entry-per-body-line", contents.n == m),
            ("entries", forall(q, z3.Implies(z3.And(0 <= q, q < m),
                                             z3.Select(contents.cols[0], q) == RH.sline(t + 1 + q))))]


def r3_post(c):
    t, e = c.a["first_line"].t, c.a["last_line"].t
    contents = c.v("contents")
    return [("one-entry-per-line-of-the-body", contents.n == e - t),
            ("each-entry-is-its-stripped-line-in-order", forall(q, z3.Implies(
                z3.And(0 <= q, q < e - t), z3.Select(contents.cols[0], q) == RH.sline(t + 1 + q))))]


R3 = REG.add(Contract(
    "las.LASFile.read#R3-other-loop",
    params={"file_obj": FILE, "k": INT, "first_line": INT, "last_line": INT},
    requires=r3_pre, ensures=r3_post, loops={0: r3_inv}, ghost_init=file_init(),
    local_types={"contents": LIST(STR)}, reveal=("io",), loop_fields=["$cursor"], modifies={"$cursor": None},
    verify_with=block_verifier("las.LASFile.read", "file_obj.seek(k)", 'sct_contents = "\\n".join(contents)', "las", occurrence=0),
    properties=("C05", "C09", "C03"), noraise=True))
R3.block_outputs = {"sct_contents": STR, "line_no": INT, "line": STR}


# ---------------------------------------------------------------- R1: steering update
def r1_post(c):
    title = c.a["section_title"].t
    letter = upper(z3.SubString(title, 1, 1))
    same = lambda nm: c.eng.to_obj(c.v(nm)) == c.eng.to_obj(c.a[nm])
    v = LI.View(c, selfname="sct_items")
    kk = z3.Int("kk_r1")

    def taken(local, key, sec_letter):
        # the steering value is the value of the section's (first) item of that name whenever there is one - whatever the value is
        return ("%s-is-taken-from-~%s-whenever-it-is-there" % (key, sec_letter), z3.Implies(
            letter == z3.StringVal(sec_letter),
            z3.And(z3.ForAll([kk], z3.Implies(LI.first_match(v, z3.StringVal(key), kk),
                                              c.eng.to_obj(c.v(local)) == z3.Select(c.h("value"), v.item(kk)))),
                   z3.Implies(LI.nomatch(v, z3.StringVal(key)), same(local)))))
    return [("VERS-WRAP-DLM-only-from-~Version", z3.Implies(letter != z3.StringVal("V"), z3.And(
                same("provisional_version"), same("provisional_wrapped"), same("provisional_delimiter")))),
            ("NULL-only-from-~Well", z3.Implies(letter != z3.StringVal("W"), same("provisional_null"))),
            taken("provisional_null", "NULL", "W"), taken("provisional_version", "VERS", "V"),
            taken("provisional_wrapped", "WRAP", "V"), taken("provisional_delimiter", "DLM", "V")]


R1 = REG.add(Contract(
    "las.LASFile.read#R1-steering",
    params={"sct_items": LI.SI, "section_title": STR, "provisional_version": OBJ, "provisional_wrapped": OBJ,
            "provisional_null": OBJ, "provisional_delimiter": OBJ},
    requires=lambda c: LI.shape(c, selfname="sct_items") + [("title-has-a-letter", z3.Length(c.a["section_title"].t) >= 2)],
    ensures=r1_post,
    verify_with=block_verifier("las.LASFile.read", 'if section_title[1].upper() == "V":', 2, "las"),
    properties=("C05", "C19", "C06", "C03"), may_raise=["AttributeError"]))
R1.note = ("sct_items.VERS is attribute access through SectionItems.__getattr__ (contract: AttributeError exactly when no item matches), "
           "guarded by the preceding `in` test")


# ---------------------------------------------------------------- K2: section kind from the title
re_hit = z3.Function("re_search_hits", PyObj, S, B)      # truthiness of re.search(pattern, string): a function of its arguments


def _two(title):
    st = strip_nl(strip(title))
    return st, upper(z3.SubString(st, 0, 2))


def is_data(title):
    st, two = _two(title)
    return z3.Or(two == z3.StringVal("~A"), z3.Contains(st, z3.StringVal("~Log_Data")))


def is_other(title):
    st, two = _two(title)
    return z3.And(z3.Not(is_data(title)), two == z3.StringVal("~O"))


def is_las3_data(title):
    st, two = _two(title)
    return z3.And(z3.Not(is_data(title)), z3.Not(is_other(title)), re_hit(obj_of_str(z3.StringVal("_Data")), st))


def is_items(title):
    return z3.And(z3.Not(is_data(title)), z3.Not(is_other(title)), z3.Not(is_las3_data(title)))


def k2_post(c):
    title = c.a["section_title"].t
    res = c.res.t
    return [("Data-exactly-for-~a/~A-and-~Log_Data-titles", (res == z3.StringVal("Data")) == is_data(title)),
            ("free-text-exactly-for-other-~o/~O-titles", (res == z3.StringVal("Header (other)")) == is_other(title)),
            ("Las3_Data-exactly-for-other-titles-with-_Data", (res == z3.StringVal("Las3_Data")) == is_las3_data(title)),
            ("header-items-otherwise", (res == z3.StringVal("Header items")) == is_items(title))]


REG.add(Contract("lib:re.search", params={"pattern": "any", "string": "any"}, returns=OBJ, assumed=True, noraise=True,
                 ensures=lambda c: ([("T-re:the-outcome-is-a-function-of-pattern-and-string",
                                      truthy(c.res.t) == re_hit(c.eng.to_obj(c.a["pattern"]), c.a["string"].t))]
                                    if isinstance(c.a["string"], VStr) else []),
                 note="re.search with a constant pattern does not raise; whether it matches is a function of (pattern, string)",
                 properties=("C05",)))

K2 = REG.add(Contract(
    "reader.determine_section_type", params={"section_title": STR},
    ensures=k2_post, returns=STR, properties=("C05",), noraise=True))


# ---------------------------------------------------------------- K6: numpy engine row arithmetic
def genfromtxt_pre(c):
    t, e = c.x_t, c.x_e
    return []


np_rows = z3.Function("np_genfromtxt", I, I, PyObj)   # (skip_header, max_rows) on the file's lines


REG.add(Contract(
    "lib:np.genfromtxt", params={"fname": "any", "skip_header": INT, "max_rows": INT, "names": "any", "unpack": "any", "loose": "any", "ndmin": "any"},
    returns=OBJ, assumed=True, may_raise=["Any"],
    ensures=lambda c: [("T-np", c.res.t == np_rows(c.a["skip_header"].t, c.a["max_rows"].t)),
                       ("T-np:ndmin=2-gives-a-2-D-array", z3.Implies(
                           c.eng.to_obj(c.a["ndmin"]) == obj_of_int(z3.IntVal(2)),
                           len_of(z3.Function("py_attr_shape", PyObj, PyObj)(c.res.t)) == 2))],
    requires=lambda c: [("file-rewound", z3.Select(c.h("$cursor"), c.a["fname"].t) == 0)],
    note="T-np: genfromtxt(f, skip_header=h, max_rows=m, unpack=True, ndmin=2) skips h physical lines of a rewound file, then reads at "
         "most m data rows (blank lines and '#' comments do not count) and returns them as a (columns, rows) array",
    properties=("C02", "C07")))


def k6_post(c):
    t, e = c.a["line_nos"].items[0].t, c.a["line_nos"].items[1].t
    return [("data-taken-from-the-line-after-the-title-and-at-most-one-row-per-body-line",
             c.res.t == np_rows(t + 1, e - t))]


K6 = REG.add(Contract(
    "reader.read_data_section_iterative_numpy_engine", params={"file_obj": FILE, "line_nos": TUPLE(INT, INT)},
    ensures=k6_post, returns=OBJ, may_raise=["Any"], ghost_init=file_init(), reveal=("io",),
    modifies={"$cursor": None}, properties=("C02", "C07"), prune=True))
K6.note = "array.shape / reshape on the result are opaque numpy operations (dead after ndmin=2)"


# ---------------------------------------------------------------- K5a: the normal engine's token generator `items`
import ast as _ast

CHR26 = z3.Function("py_chr", I, S)(z3.IntVal(26))
py_replace = z3.Function("py_replace", S, S, S, S)
resub = z3.Function("re_sub", PyObj, PyObj, S, S)          # re.sub(pattern, repl, string)
foldsub = z3.Function("fold_subs", I, S, S)                # first j substitutions applied
split_n = z3.Function("splitter_count", S, I)              # len(line_splitter(line))
split_tok = z3.Function("splitter_token", S, I, S)         # "".join(line_splitter(line)[j])
cum = z3.Function("tokens_before_line", I, I)


def k5_defs(c):
    t, e = c.a["start_line_no"].t, c.a["end_line_no"].t
    idc = c.a["ignore_data_comments"].t
    subs = c.a["regexp_subs"]
    sl = lambda kk: RH.sline(kk)
    clean = lambda kk: py_replace(foldsub(subs.n, sl(kk)), CHR26, z3.StringVal(""))
    comment = lambda kk: z3.PrefixOf(idc, sl(kk))
    data = lambda kk: z3.And(z3.Not(comment(kk)), z3.Length(clean(kk)) > 0)
    ntok = lambda kk: split_n(clean(kk))
    import specs.reader_num as N
    tok = lambda kk, j: split_tok(clean(kk), j)
    tokv = lambda kk, j: z3.If(N.float_ok(tok(kk, j)), N.float_obj(tok(kk, j)), obj_of_str(tok(kk, j)))
    return t, e, sl, clean, comment, data, ntok, tokv


def k5_init(c, st):
    file_init(fname="f")(c, st)
    t, e, sl, clean, comment, data, ntok, tokv = k5_defs(c)
    subs = c.a["regexp_subs"]
    x, j = z3.String("fs_x"), z3.Int("fs_j")
    st.assume(z3.ForAll([x], foldsub(0, x) == x, patterns=[foldsub(0, x)]))
    step = z3.ForAll([j, x], z3.Implies(z3.And(0 <= j, j < subs.n),
                                        foldsub(j + 1, x) == resub(z3.Select(subs.cols[0], j), z3.Select(subs.cols[1], j), foldsub(j, x))),
                     patterns=[foldsub(j + 1, x)])
    st.assume(step)
    st.ghost["ax:foldsub-step"] = step
    st.assume(cum(t + 1) == 0)
    cstep = z3.ForAll([k], z3.Implies(k > t, cum(k + 1) == cum(k) + z3.If(data(k), ntok(k), 0)), patterns=[cum(k + 1)])
    st.assume(cstep)
    st.ghost["ax:cum-step"] = cstep
    st.assume(z3.ForAll([x], split_n(x) >= 0, patterns=[split_n(x)]))
    st.ghost["$yielded"] = VList(z3.IntVal(0), [z3.K(I, z3.Const("py_None", PyObj))], OBJ)


def k5_emitted(c, upto, y):
    """every data line in (t, upto) has put its tokens, in order, at its place"""
    t, e, sl, clean, comment, data, ntok, tokv = k5_defs(c)
    j = z3.Int("tj")
    return [("tokens-of-earlier-lines-in-place", z3.ForAll([k, j], z3.Implies(
                z3.And(t < k, k < upto, data(k), 0 <= j, j < ntok(k)), z3.Select(y.cols[0], cum(k) + j) == tokv(k, j)))),
            ("earlier-lines-end-before-the-current-end", forall(k, z3.Implies(z3.And(t < k, k < upto, data(k)),
                                                                              z3.And(cum(k) >= 0, cum(k) + ntok(k) <= y.n))))]


def k5_outer(c):
    t, e, sl, clean, comment, data, ntok, tokv = k5_defs(c)
    y = c.g("$yielded")
    cur = t + 1 + c.i
    return [("cursor-start", c.x["cur0"] == t + 1),
            ("within-body", cur <= e + 1),
            ("count", z3.And(y.n == cum(cur), y.n >= 0))] + k5_emitted(c, cur, y)


def k5_subs(c):
    """inner loop 1: the regexp substitutions applied so far"""
    t, e, sl, clean, comment, data, ntok, tokv = k5_defs(c)
    ln = c.v("line_no").t
    return [("line-is-the-fold", c.v("line").t == foldsub(c.i, sl(ln))),
            ("nothing-yielded-meanwhile", z3.And(c.g("$yielded").n == cum(ln), c.g("$yielded").n >= 0)),
            ("line_no-in-body", z3.And(t < ln, ln <= e)),
            ("cursor", cursor(c, "f") == ln + 1)] + k5_emitted(c, ln, c.g("$yielded"))


def k5_tokens(c):
    """inner loop 2: tokens of the current line"""
    t, e, sl, clean, comment, data, ntok, tokv = k5_defs(c)
    ln = c.v("line_no").t
    y = c.g("$yielded")
    j = z3.Int("tj2")
    return [("this-line-is-data", data(ln)),
            ("count", z3.And(y.n == cum(ln) + c.i, cum(ln) >= 0)),
            ("line_no-in-body", z3.And(t < ln, ln <= e)),
            ("cursor", cursor(c, "f") == ln + 1),
            ("tokens-so-far", forall(j, z3.Implies(z3.And(0 <= j, j < c.i), z3.Select(y.cols[0], cum(ln) + j) == tokv(ln, j))))] + k5_emitted(c, ln, y)


def k5_post(c):
    t, e, sl, clean, comment, data, ntok, tokv = k5_defs(c)
    y = c.g("$yielded")
    j = z3.Int("tj3")
    return [("token-count=tokens-of-the-body's-data-lines", y.n == cum(e + 1)),
            ("every-data-line-of-the-body-yields-its-tokens-in-order", z3.ForAll([k, j], z3.Implies(
                z3.And(t < k, k <= e, data(k), 0 <= j, j < ntok(k)), z3.Select(y.cols[0], cum(k) + j) == tokv(k, j)))),
            ("no-line-beyond-the-body-is-tokenised", cursor(c, "f") <= e + 2)]


def splitter_result(c):
    ln = c.a["line"].t
    jj = z3.Int("sj")
    return VList(split_n(ln), [z3.Lambda([jj], obj_of_str(split_tok(ln, jj)))], OBJ)


REG.add(Contract("lib:line_splitter", params={"line": STR}, returns=splitter_result, assumed=True, noraise=True,
                 note="T-re: the configured splitter returns a list of tuples; ''.join(t) of the j-th is split_tok(line, j)",
                 properties=("C02", "C05", "C07", "C09")))


def verify_items(E, c):
    outer = E.funcs["reader.read_data_section_iterative_normal_engine"]
    inner = [n for n in outer.body if isinstance(n, _ast.FunctionDef) and n.name == "items"]
    if len(inner) != 1:
        from pyvc.state import OutOfSubset
        raise OutOfSubset("nested generator `items` not found")
    fn = inner[0]
    fn._pyvc_top = True
    return E.verify(c, fnode=fn, module="reader")


K5A = REG.add(Contract(
    "reader.read_data_section_iterative_normal_engine#items",
    params={"f": FILE, "start_line_no": INT, "end_line_no": INT, "ignore_data_comments": STR,
            "regexp_subs": LIST(TUPLE(OBJ, OBJ)), "line_splitter": VExt("lib:line_splitter")},
    requires=lambda c: [("cursor-after-the-title", cursor(c, "f") == c.a["start_line_no"].t + 1),
                        ("section-in-file", z3.And(0 <= c.a["start_line_no"].t, c.a["start_line_no"].t <= c.a["end_line_no"].t,
                                                   c.a["end_line_no"].t < NLINES))],
    ensures=k5_post, loops={0: k5_outer, 1: k5_subs, 2: k5_tokens},
    loop_hints={0: lambda c: [(c.g("ax:cum-step"), [c.a["start_line_no"].t + 1 + c.i])],
                1: lambda c: [(c.g("ax:foldsub-step"), [c.i, RH.sline(c.v("line_no").t)])]},
    loop_ghost={0: ["$yielded"], 1: ["$yielded"], 2: ["$yielded"]},
    ghost_init=k5_init, reveal=("io", "num"), loop_fields=["$cursor"], modifies={"$cursor": None},
    verify_with=verify_items, properties=("C02", "C05", "C07", "C09"), noraise=True))


# ---------------------------------------------------------------- R7: assignment of data columns to curves
from . import las_api as API
np_asarray = z3.Function("np_asarray", PyObj, PyObj)
isfloat = lambda col: z3.Function("py_eq", PyObj, PyObj, B)(z3.Function("py_attr_dtype", PyObj, PyObj)(col), z3.Const("ext_%s" % __import__("hashlib").sha1(b"builtin:float").hexdigest()[:10], PyObj))

REG.contracts["las_items.CurveItem.__init__"][0].ensures = (lambda old: (lambda c: old(c) + [
    ("data-is-asarray-of-the-argument", z3.Select(c.h("data"), c.a["self"].t) == np_asarray(z3.If(is_none(c.a["data"].t), z3.Const("seq_%s" % __import__("hashlib").sha1(b"[]").hexdigest()[:10], PyObj), c.a["data"].t)))]))(LI.hi_init_post)
REG.add(Contract("lib:np.asarray", params={"a": OBJ}, returns=OBJ, assumed=True, noraise=True,
                 ensures=lambda c: [("T-np", c.res.t == np_asarray(c.a["a"].t))],
                 note="T-np: numpy.asarray is a function of its argument (identity on arrays)", properties=("C07", "C06", "C14")))


def r7_view(c, old=False):
    class _C:
        a = {"self": c.a["self"]}
        def h(s, f): return c.h(f)
        def old(s, f): return c.old(f)
    cc = _C()
    return API.cv(c, old)


def r7_init(c, st):
    st.ghost["$mutated"] = z3.K(PyObj, z3.BoolVal(False))
    st.ghost["$mutated_key"] = z3.Const("mut_key0", z3.ArraySort(PyObj, PyObj))
    st.ghost["$mutated_val"] = z3.Const("mut_val0", z3.ArraySort(PyObj, PyObj))


def r7_pre(c):
    v = API.cv(c)
    gen, flags = c.a["curves_data_gen"], c.a["data_assigned_to_curves"]
    j1, j2 = z3.Int("j1"), z3.Int("j2")
    col = lambda j: z3.Select(gen.cols[0], j)
    return API.las_shape(c) + [
        ("distinct-curve-objects", LI.distinct_objects(v)),
        ("one-flag-per-declared-curve-all-false", z3.And(flags.n == v.n, forall(q, z3.Implies(z3.And(0 <= q, q < flags.n), z3.Not(z3.Select(flags.cols[0], q)))))),
        ("the-engine-yields-arrays-not-None", forall(q, z3.Implies(z3.And(0 <= q, q < gen.n), z3.Not(is_none(col(q)))))),
        ("the-engine-yields-distinct-arrays", z3.ForAll([j1, j2], z3.Implies(z3.And(0 <= j1, j1 < j2, j2 < gen.n), col(j1) != col(j2)))),
    ]


def r7_state(c, i):
    """after i columns"""
    v, v0 = API.cv(c), API.cv(c, old=True)
    d = v0.n
    gen, flags = c.a["curves_data_gen"], c.v("data_assigned_to_curves")
    col = lambda j: z3.Select(gen.cols[0], j)
    data = c.h("data")
    mut, mkey, mval = c.g("$mutated"), c.g("$mutated_key"), c.g("$mutated_val")
    pn = c.a["provisional_null"].t
    nan = z3.Const("ext_%s" % __import__("hashlib").sha1(b"mod:np.nan").hexdigest()[:10], PyObj)
    py_eq_obj = z3.Function("py_eq_obj", PyObj, PyObj, PyObj)
    r = z3.Int("r_o")
    return [
        ("curve-count=max(declared,columns-so-far)", v.n == z3.If(i > d, i, d)),
        ("same-section-object", z3.And(v.s == v0.s, z3.Select(c.h("$alloc"), v.s))),
        ("declared-curves-keep-their-place", forall(q, z3.Implies(z3.And(0 <= q, q < d), v.item(q) == v0.item(q)))),
        ("column-j-is-the-data-of-curve-j", forall(q, z3.Implies(z3.And(0 <= q, q < i),
                                                                 z3.Select(data, v.item(q)) == z3.If(q < d, col(q), np_asarray(col(q)))))),
        ("surplus-columns-become-new-unnamed-curves", forall(q, z3.Implies(z3.And(d <= q, q < v.n), z3.And(
            z3.Not(z3.Select(c.old("$alloc"), v.item(q))), z3.Select(c.h("$alloc"), v.item(q)), v.item(q) != v.s,
            z3.Select(c.h("original_mnemonic"), v.item(q)) == z3.StringVal(""))))),
        ("declared-metadata-untouched", z3.ForAll([r], z3.Implies(z3.Select(c.old("$alloc"), r), z3.And(
            z3.Select(c.h("original_mnemonic"), r) == z3.Select(c.old("original_mnemonic"), r),
            z3.Select(c.h("unit"), r) == z3.Select(c.old("unit"), r), z3.Select(c.h("value"), r) == z3.Select(c.old("value"), r),
            z3.Select(c.h("descr"), r) == z3.Select(c.old("descr"), r))))),
        ("other-sections-untouched", z3.ForAll([r], z3.Implies(z3.And(z3.Select(c.old("$alloc"), r), r != v0.s), z3.And(
            z3.Select(c.h("$len"), r) == z3.Select(c.old("$len"), r), z3.Select(c.h("$items"), r) == z3.Select(c.old("$items"), r))))),
        ("NULL-replaced-exactly-in-float-non-index-columns-when-the-policy-says-so", forall(q, z3.Implies(z3.And(0 <= q, q < i),
            z3.Select(mut, col(q)) == z3.And(c.a["version_NULL"].t, isfloat(col(q)), q != 0)))),
        ("the-replacement-is: column[column == NULL] = nan", forall(q, z3.Implies(z3.And(0 <= q, q < i, z3.Select(mut, col(q))), z3.And(
            z3.Select(mkey, col(q)) == z3.Function("py_cmp_Eq", PyObj, PyObj, PyObj)(col(q), pn), z3.Select(mval, col(q)) == nan)))),
        ("later-columns-not-yet-touched", forall(q, z3.Implies(z3.And(i <= q, q < gen.n), z3.Not(z3.Select(mut, col(q)))))),
        ("flags", z3.And(flags.n == v.n, forall(q, z3.Implies(z3.And(0 <= q, q < i), z3.Select(flags.cols[0], q))),
                  forall(q, z3.Implies(z3.And(i <= q, q < flags.n), z3.Not(z3.Select(flags.cols[0], q)))))),
        ("alloc-grows", z3.ForAll([r], z3.Implies(z3.Select(c.old("$alloc"), r), z3.Select(c.h("$alloc"), r)))),
        ("curves-field", c.h("$sec_Curves") == c.old("$sec_Curves")),
    ]


def r7_inv(c):
    return [("curve_idx=columns-so-far", c.v("curve_idx").t == c.i)] + r7_state(c, c.i)


R7_FIELDS = ["$len", "$items", "$alloc", "$cls", "data", "mnemonic", "original_mnemonic", "unit", "value", "descr", "$sec_Curves"]

R7 = REG.add(Contract(
    "las.LASFile.read#R7-assign-columns",
    params={"self": API.LAS, "curves_data_gen": LIST(OBJ), "version_NULL": BOOL, "provisional_null": OBJ,
            "data_assigned_to_curves": LIST(BOOL)},
    requires=r7_pre,
    ensures=lambda c: r7_state(c, c.a["curves_data_gen"].n),
    loops={0: r7_inv}, loop_fields=R7_FIELDS, loop_ghost={0: ["$mutated", "$mutated_key", "$mutated_val"]},
    loop_types={"curve": API.CI, "curve_length": INT}, dict_like=("data_assigned_to_curves",),
    ghost_init=r7_init, modifies={f: None for f in R7_FIELDS},
    use={"las_items.SectionItems.append": "shape"},
    verify_with=block_verifier("las.LASFile.read", "curve_idx = 0", "curve_idx += 1", "las"),
    properties=("C06", "C07", "C01"), may_raise=["Any"]))
R7.note = "numpy.asarray / arr[mask] = nan / len(array) are opaque library operations that may raise"


# ---------------------------------------------------------------- R5: column-count choice and cursor discipline
sniff = z3.Function("sniffed_columns", I, PyObj, I)          # inspect_data_section(title line, substitutions)
sniff_subs = z3.Function("recommended_subs", I, PyObj, PyObj)

K4 = REG.add(Contract(
    "reader.inspect_data_section",
    params={"file_obj": FILE, "line_nos": TUPLE(INT, INT), "regexp_subs": OBJ, "ignore_data_comments": OBJ},
    requires=lambda c: [("cursor-at-the-section-title", cursor(c) == c.a["line_nos"].items[0].t)],
    ensures=lambda c: [("a-function-of-the-section-and-the-substitutions", z3.And(
        c.res.items[0].t == sniff(c.a["line_nos"].items[0].t, c.a["regexp_subs"].t),
        c.res.items[1].t == sniff_subs(c.a["line_nos"].items[0].t, c.a["regexp_subs"].t)))],
    returns=TUPLE(INT, OBJ), modifies={"$cursor": None}, assumed=True, may_raise=["Any"],
    note="inspect_data_section reads from the current position: it must be called with the cursor at the section title; its result "
         "depends only on that section and the substitutions (bounded: C07/C09 harnesses)",
    properties=("C07", "C01", "C09")))


def r5_post(c):
    t = c.a["first_line"].t
    n1 = sniff(t, c.a["regexp_subs"].t)
    n2 = sniff(t, sniff_subs(t, c.a["regexp_subs"].t))
    rn = c.v("reader_n_columns").t
    d = API.cv(c).n
    return [("cursor-back-at-the-section-title-for-the-data-engine", cursor(c) == t),
            ("columns=sniffed-count-or-declared-curves-when-inconsistent", z3.Or(
                rn == z3.If(n1 == -1, d, n1), rn == z3.If(n2 == -1, d, n2)))]


R5 = REG.add(Contract(
    "las.LASFile.read#R5-column-count",
    params={"self": API.LAS, "file_obj": FILE, "k": INT, "first_line": INT, "last_line": INT, "regexp_subs": OBJ,
            "ignore_data_comments": OBJ, "accept_regexp_sub_recommendations": OBJ, "dtypes": OBJ},
    requires=lambda c: API.las_shape(c) + [("offset-is-the-title's", c.a["k"].t == cookie(c.a["first_line"].t)),
                                          ("title-in-file", z3.And(0 <= c.a["first_line"].t, c.a["first_line"].t < NLINES))],
    ensures=r5_post, ghost_init=file_init(), reveal=("io",), modifies={"$cursor": None},
    verify_with=block_verifier("las.LASFile.read", "file_obj.seek(k)", "if isinstance(dtypes, dict)", "las", occurrence=0),
    properties=("C07", "C01", "C09", "C02"), may_raise=["Any"], merge=False, free_default=True))


# ---------------------------------------------------------------- R2: routing of a parsed header section by its title
def r2_post(c):
    title = c.a["section_title"].t
    me, sec = c.a["self"].t, c.a["sct_items"].t
    letter = upper(z3.SubString(title, 1, 1))
    plain = z3.Not(z3.Contains(title, z3.StringVal("_")))
    las3 = z3.Or(z3.Contains(title, z3.StringVal("~Log_Definition")), z3.Contains(title, z3.StringVal("~Log_Parameter")),
                 z3.And(z3.Function("py_eq", PyObj, PyObj, B)(c.a["provisional_version"].t, API_const(3.0)), c.a["las3_section"].t))
    fld = lambda f: z3.Select(c.h(f), me)
    fld0 = lambda f: z3.Select(c.old(f), me)
    four = ["$sec_Version", "$sec_Well", "$sec_Curves", "$sec_Parameter"]
    only = lambda f: z3.And([fld(f) == sec] + [fld(g) == fld0(g) for g in four if g != f] + [fld("$sec_custom") == fld0("$sec_custom")])
    rest = z3.SubString(title, 1, z3.Length(title) - 1)
    return [
        ("~c/~C-is-Curves", z3.Implies(z3.And(letter == z3.StringVal("C"), plain), only("$sec_Curves"))),
        ("~p/~P-is-Parameter", z3.Implies(z3.And(letter == z3.StringVal("P"), plain), only("$sec_Parameter"))),
        ("~v/~V-is-Version", z3.Implies(z3.And(letter == z3.StringVal("V"), plain, z3.Not(las3)), only("$sec_Version"))),
        ("~w/~W-is-Well", z3.Implies(z3.And(letter == z3.StringVal("W"), plain, z3.Not(las3)), only("$sec_Well"))),
        ("any-other-section-is-kept-under-its-own-title-and-touches-no-standard-section", z3.Implies(
            z3.And(plain, z3.Not(las3), z3.Not(z3.Or([letter == z3.StringVal(x) for x in "CPVW"])),
                   z3.Not(z3.Or([rest == z3.StringVal(x) for x in ("Version", "Well", "Curves", "Parameter")]))),
            z3.And([fld(g) == fld0(g) for g in four] + [z3.Select(fld("$sec_custom"), rest) == sec]))),
    ]


def API_const(x):
    import hashlib
    return z3.Const("const_%s" % hashlib.sha1(repr(x).encode()).hexdigest()[:10], PyObj)


R2 = REG.add(Contract(
    "las.LASFile.read#R2-routing",
    params={"self": API.LAS, "sct_items": LI.SI, "section_title": STR, "provisional_version": OBJ, "las3_section": BOOL},
    requires=lambda c: [("title-has-a-letter", z3.Length(c.a["section_title"].t) >= 2)],
    ensures=r2_post,
    modifies={f: (lambda c, r: r == c.a["self"].t) for f in ("$sec_Version", "$sec_Well", "$sec_Curves", "$sec_Parameter", "$sec_custom")},
    verify_with=block_verifier("las.LASFile.read", "if (", "self.sections[section_title[1:]] = sct_items", "las", occurrence=0),
    properties=("C05",), noraise=True, merge=False))


# ---------------------------------------------------------------- R6: engine dispatch with fallback
normal_gen = z3.Function("normal_engine_columns", I, I, PyObj)      # (title line, n_columns) -> generator of columns

NORMAL = REG.add(Contract(
    "reader.read_data_section_iterative_normal_engine",
    params={"file_obj": FILE, "line_nos": TUPLE(INT, INT), "regexp_subs": OBJ, "value_null_subs": OBJ, "ignore_data_comments": OBJ,
            "n_columns": INT, "dtypes": OBJ, "line_splitter": OBJ},
    requires=lambda c: [("cursor-at-the-section-title", cursor(c) == c.a["line_nos"].items[0].t)],
    ensures=lambda c: [("columns-of-this-section", c.res.t == normal_gen(c.a["line_nos"].items[0].t, c.a["n_columns"].t))],
    returns=OBJ, assumed=True, noraise=True,
    note="generator function: creating the generator runs no code; its body starts by reading the title line from the CURRENT "
         "position (so the cursor must be at the section title) and then runs the token generator verified as K5a; reshape/astype are numpy",
    properties=("C02", "C07", "C05")))


def r6_post(c):
    t = c.a["first_line"].t
    gen = c.v("curves_data_gen").t
    nrm = normal_gen(t, c.a["reader_n_columns"].t)
    npy = np_rows(t + 1, c.a["last_line"].t - t)
    return [("the-data-comes-from-this-section-by-the-chosen-engine-or-its-fallback", z3.Or(gen == nrm, gen == npy)),
            ("normal-engine-requested-means-normal-engine-used", z3.Implies(c.a["engine"].t == z3.StringVal("normal"), gen == nrm))]


R6 = REG.add(Contract(
    "las.LASFile.read#R6-engine-dispatch",
    params={"self": API.LAS, "engine": STR, "file_obj": FILE, "k": INT, "first_line": INT, "last_line": INT, "regexp_subs": OBJ,
            "value_null_subs": OBJ, "ignore_data_comments": OBJ, "reader_n_columns": INT, "dtypes": OBJ, "line_splitter": OBJ, "i": INT},
    requires=lambda c: [("offset-is-the-title's", c.a["k"].t == cookie(c.a["first_line"].t)),
                        ("cursor-at-the-section-title", cursor(c) == c.a["first_line"].t),
                        ("engine-is-numpy-or-normal", z3.Or(c.a["engine"].t == z3.StringVal("numpy"), c.a["engine"].t == z3.StringVal("normal"))),
                        ("title-in-file", z3.And(0 <= c.a["first_line"].t, c.a["first_line"].t < NLINES))],
    ensures=r6_post, ghost_init=file_init(), reveal=("io",), modifies={"$cursor": None},
    loop_types={"curves_data_gen": OBJ},
    verify_with=block_verifier("las.LASFile.read", 'if engine == "numpy":', 'if engine == "normal":', "las"),
    properties=("C02", "C07"), may_raise=["LASDataError"], merge=False, free_default=True, prune=True))


# ---------------------------------------------------------------- K4 verified: inspect_data_section (replaces the assumed contract when it verifies)
ws_count = z3.Function("whitespace_token_count", S, I)          # len(sow_regex.findall(line))
dcount = z3.Function("data_lines_before", I, I)


def ws_tokens(c):
    ln = c.a["string"].t
    jj = z3.Int("wj")
    return VList(ws_count(ln), [z3.Lambda([jj], z3.Const("ws_tok", PyObj))], OBJ)


REG.add(Contract("lib:sow_regex.findall", params={"string": STR}, returns=ws_tokens, assumed=True, noraise=True,
                 note="T-re: the module-level whitespace/quote tokeniser; only the number of matches is used", properties=("C07", "C01", "C09")))


def k4_defs(c):
    t, e = c.a["line_nos"].items[0].t, c.a["line_nos"].items[1].t
    idc = c.a["ignore_data_comments"].t
    subs = c.a["regexp_subs"]
    sl = lambda kk: RH.sline(kk)
    isdata = lambda kk: z3.And(z3.Length(sl(kk)) > 0, z3.Not(z3.PrefixOf(idc, sl(kk))))
    ntok = lambda kk: ws_count(foldsub(subs.n, sl(kk)))
    return t, e, sl, isdata, ntok


def k4_init(c, st):
    file_init()(c, st)
    t, e, sl, isdata, ntok = k4_defs(c)
    subs = c.a["regexp_subs"]
    x, j = z3.String("fs_x"), z3.Int("fs_j")
    st.assume(z3.ForAll([x], foldsub(0, x) == x, patterns=[foldsub(0, x)]))
    step = z3.ForAll([j, x], z3.Implies(z3.And(0 <= j, j < subs.n),
                                        foldsub(j + 1, x) == resub(z3.Select(subs.cols[0], j), z3.Select(subs.cols[1], j), foldsub(j, x))),
                     patterns=[foldsub(j + 1, x)])
    st.assume(step); st.ghost["ax:foldsub-step"] = step
    st.assume(dcount(t + 1) == 0)
    dstep = z3.ForAll([k], z3.Implies(k > t, dcount(k + 1) == dcount(k) + z3.If(isdata(k), 1, 0)), patterns=[dcount(k + 1)])
    st.assume(dstep); st.ghost["ax:dcount-step"] = dstep
    st.assume(z3.ForAll([x], ws_count(x) >= 0, patterns=[ws_count(x)]))


def k4_counts(c, upto, counts):
    t, e, sl, isdata, ntok = k4_defs(c)
    return [("one-count-per-data-line", z3.And(counts.n == dcount(upto), counts.n >= 0)),
            ("counts-are-the-token-counts-of-the-data-lines-in-order", forall(k, z3.Implies(
                z3.And(t < k, k < upto, isdata(k)), z3.And(0 <= dcount(k), dcount(k) < counts.n,
                                                            z3.Select(counts.cols[0], dcount(k)) == ntok(k)))))]


def k4_outer(c):
    t, e, sl, isdata, ntok = k4_defs(c)
    cur = t + 1 + c.i
    return [("cursor-start", c.x["cur0"] == t + 1), ("line_no", c.v("line_no").t == t + c.i),
            ("within-the-body (for a non-empty body)", z3.Implies(t < e, t + c.i < e)),
            ] + k4_counts(c, cur, c.v("item_counts"))


def k4_inner(c):
    t, e, sl, isdata, ntok = k4_defs(c)
    ln = c.v("line_no").t
    return [("line-is-the-fold", c.v("line").t == foldsub(c.i, sl(ln))), ("this-is-a-data-line", z3.And(t < ln, isdata(ln))),
            ("cursor", cursor(c) == ln + 1)] + k4_counts(c, ln, c.v("item_counts"))


def k4_post(c):
    t, e, sl, isdata, ntok = k4_defs(c)
    n = c.res.items[0].t
    return [("a-column-count-is-reported-only-when-every-sampled-data-line-has-that-many-tokens", z3.Implies(n != -1, forall(k, z3.Implies(
        z3.And(t < k, k < cursor(c), isdata(k)), ntok(k) == n)))),
        ("no-line-beyond-the-section's-last-line-is-inspected (non-empty body)", z3.Implies(t < e, cursor(c) <= e + 1))]


K4V = REG.add(Contract(
    "reader.inspect_data_section", case="verified",
    params={"file_obj": FILE, "line_nos": TUPLE(INT, INT), "regexp_subs": LIST(TUPLE(OBJ, OBJ)), "ignore_data_comments": STR},
    requires=lambda c: [("cursor-at-the-section-title", cursor(c) == c.a["line_nos"].items[0].t),
                        ("section-in-file", z3.And(0 <= c.a["line_nos"].items[0].t, c.a["line_nos"].items[0].t < NLINES))],
    ensures=k4_post, loops={0: k4_outer, 1: k4_inner},
    loop_hints={0: lambda c: [(c.g("ax:dcount-step"), [c.a["line_nos"].items[0].t + 1 + c.i])],
                1: lambda c: [(c.g("ax:foldsub-step"), [c.i, RH.sline(c.v("line_no").t)])]},
    local_types={"item_counts": LIST(INT), "hyphen_exists": LIST(INT)},
    ghost_init=k4_init, reveal=("io", "num"), loop_fields=["$cursor"], modifies={"$cursor": None},
    abstract_exprs=True, only_on_request=True, break_cut={0: ["if (line_no == line_nos[1])"]},
    break_cut_skip=("within-the-body (for a non-empty body)",),
    properties=("C07", "C01", "C09", "C02", "C05"), may_raise=["Any"]))
K4V.note = "the final filtering of regexp_subs (list comprehension with `not in`) is abstracted to an opaque value"


# ---------------------------------------------------------------- R0: the section loop of LASFile.read as a whole
# Composition of K1 (the section table), K2 (kind of a section), K3 (header items), and the blocks R1, R2, R3 used
# through their contracts: every section found is dispatched exactly as its kind demands - no section is skipped,
# the loop is left only by exhaustion, every data section is remembered in file order.
from . import reader_sections as RS

drank = z3.Function("data_sections_before", I, I)
jj = z3.Int("jj")


def r0_titles(c):
    sp = c.a["section_positions"]
    return sp, (lambda x: RS.sel(sp, 3, x))


def r0_pre(c):
    sp, title = r0_titles(c)
    return RS.sections_post(sp) + [
        ("every-title-has-a-letter-after-the-tilde", forall(jj, z3.Implies(z3.And(0 <= jj, jj < sp.n), z3.Length(title(jj)) >= 2))),
        ("mnemonic_case-is-one-of-the-three", z3.Or([c.a["mnemonic_case"].t == z3.StringVal(x) for x in ("upper", "lower", "preserve")])),
        ("no-data-section-remembered-yet", z3.And(c.a["data_section_indices"].n == 0, c.a["las3_data_section_indices"].n == 0)),
    ]


def r0_init(c, st):
    file_init()(c, st)
    sp, title = r0_titles(c)
    st.assume(drank(0) == 0)
    step = z3.ForAll([jj], z3.Implies(jj >= 0, drank(jj + 1) == drank(jj) + z3.If(is_data(title(jj)), 1, 0)), patterns=[drank(jj + 1)])
    st.assume(step); st.ghost["ax:drank-step"] = step
    st.assume(z3.ForAll([jj], z3.Implies(jj >= 0, drank(jj) >= 0), patterns=[drank(jj)]))
    for g in ("$parsed", "$routed", "$other_read", "$other_stored"):
        st.ghost[g] = z3.K(I, z3.BoolVal(False))


def _mark(g):
    def hook(c, st):
        st.ghost[g] = z3.Store(st.ghost[g], st.env["i"].t, z3.BoolVal(True))
    return hook


def r0_facts(c, upto):
    sp, title = r0_titles(c)
    dsi = c.v("data_section_indices")
    return [
        ("one-remembered-index-per-data-section", dsi.n == drank(upto)),
        ("data-sections-are-remembered-in-file-order", forall(jj, z3.Implies(
            z3.And(0 <= jj, jj < upto, is_data(title(jj))), z3.And(0 <= drank(jj), drank(jj) < dsi.n, z3.Select(dsi.cols[0], drank(jj)) == jj)))),
        ("only-data-sections-are-remembered", forall(q, z3.Implies(z3.And(0 <= q, q < dsi.n), z3.And(
            0 <= z3.Select(dsi.cols[0], q), z3.Select(dsi.cols[0], q) < upto, is_data(title(z3.Select(dsi.cols[0], q))))))),
        ("every-header-item-section-is-parsed-from-its-own-lines-and-stored", forall(jj, z3.Implies(
            z3.And(0 <= jj, jj < upto, is_items(title(jj))), z3.And(z3.Select(c.g("$parsed"), jj), z3.Select(c.g("$routed"), jj))))),
        ("every-free-text-section-is-read-from-its-own-lines-and-stored", forall(jj, z3.Implies(
            z3.And(0 <= jj, jj < upto, is_other(title(jj))), z3.And(z3.Select(c.g("$other_read"), jj), z3.Select(c.g("$other_stored"), jj))))),
    ]


def r0_inv(c):
    return r0_facts(c, c.i)


def r0_post(c):
    return r0_facts(c, c.a["section_positions"].n)


def r0_blocks(E):
    out = []
    for bc, start, end, hook in ((R1, 'if section_title[1].upper() == "V":', 2, None),
                                 (R2, "if (", "self.sections[section_title[1:]] = sct_items", _mark("$routed")),
                                 (R3, "file_obj.seek(k)", 'sct_contents = "\\n".join(contents)', _mark("$other_read"))):
        blk, _ = BL.find_block(E, "las.LASFile.read", start, end, 0)
        out.append((bc, blk, hook))
    return out


R0_FIELDS = ["$cursor", "$len", "$items", "$alloc", "$line", "mnemonic", "original_mnemonic", "unit", "value", "descr", "data", "$cls",
             "mnemonic_transforms", "section_name2", "$sec_Version", "$sec_Well", "$sec_Curves", "$sec_Parameter", "$sec_custom", "$sec_Other", "$sec_text"]

R0 = REG.add(Contract(
    "las.LASFile.read#R0-section-loop",
    params={"self": API.LAS, "file_obj": FILE, "section_positions": LIST(RS.SECTION_T),
            "provisional_version": OBJ, "provisional_wrapped": OBJ, "provisional_null": OBJ, "provisional_delimiter": OBJ,
            "ignore_header_errors": BOOL, "mnemonic_case": STR, "ignore_comments": CONST(("#",)),
            "data_section_indices": LIST(INT), "las3_data_section_indices": LIST(INT),
            "las3_section_indicators": VCList([VStr(z3.StringVal(x)) for x in ("_DATA", "_PARAMETER", "_DEFINITION")])},
    requires=r0_pre, ensures=r0_post, loops={0: r0_inv}, ghost_init=r0_init,
    loop_hints={0: lambda c: [(c.g("ax:drank-step"), [c.i])]},
    hooks={"sct_items = reader.parse_header_items_section(": _mark("$parsed"),
           'if section_title[1].upper() == "O":': _mark("$other_stored")},
    use_blocks=r0_blocks, loop_fields=R0_FIELDS, loop_ghost={0: ["$parsed", "$routed", "$other_read", "$other_stored"]},
    modifies={f: None for f in R0_FIELDS if f not in ("$alloc", "$cls")},
    verify_with=block_verifier("las.LASFile.read", "for i, (k, first_line, last_line, section_title) in enumerate(", "for i, (k, first_line", "las"),
    reveal=("io",), may_raise=["Any"], free_default=True, abstract_exprs=True, properties=("C05",)))
R0.note = ("the blocks R1 (steering), R2 (routing) and R3 (~Other lines) are used through their contracts; ghost marks record that the "
           "statement was reached in iteration i; las3 handling is not specified")


# ---------------------------------------------------------------- R4a: between the section loop and the data sections
def r4a_verify(E, c):
    """the statements of LASFile.read's try body that follow the section loop and precede `if not ignore_data:`,
    located structurally (whatever is inserted there is part of the block)"""
    import ast
    fn = E.funcs["las.LASFile.read"]
    tries = [n for n in fn.body if isinstance(n, ast.Try)]
    if len(tries) != 1:
        raise OutOfSubset("R4a: expected one try statement in LASFile.read")
    body = tries[0].body
    text = lambda n: (ast.get_source_segment(E.src["las"], n) or "").strip()
    i0 = [i for i, n in enumerate(body) if isinstance(n, ast.For) and text(n).startswith("for i, (k, first_line, last_line, section_title) in enumerate(")]
    i1 = [i for i, n in enumerate(body) if isinstance(n, ast.If) and text(n).startswith("if not ignore_data:")]
    if len(i0) != 1 or len(i1) != 1 or not i0[0] < i1[0]:
        raise OutOfSubset("R4a: section loop / `if not ignore_data:` not found in the try body of LASFile.read")
    return E.verify(c, fnode=fn, body=body[i0[0] + 1:i1[0]], module="las")


gs_tables = z3.Function("get_substitutions_result", PyObj, PyObj, I, PyObj)     # (read_policy, null_policy, component)


def r4a_init(c, st):
    st.ghost["$mutated"] = z3.K(PyObj, z3.BoolVal(False))
    st.ghost["$mutated_key"] = z3.Const("mut_key0", z3.ArraySort(PyObj, PyObj))
    st.ghost["$mutated_val"] = z3.Const("mut_val0", z3.ArraySort(PyObj, PyObj))


def r4a_post(c):
    same = lambda nm: c.eng.to_obj(c.v(nm)) == c.eng.to_obj(c.a[nm])
    o = z3.Const("any_obj", PyObj)
    rp, npol = c.eng.to_obj(c.v("read_policy")), c.eng.to_obj(c.a["null_policy"])
    tables = [("the-substitution-tables-are-used-as-get_substitutions-returned-them: %s" % nm,
               c.eng.to_obj(c.v(nm)) == gs_tables(rp, npol, z3.IntVal(i_)))
              for i_, nm in enumerate(("regexp_subs", "value_null_subs", "version_NULL"))]
    return tables + [("no-table-is-updated-in-place", z3.ForAll([o], z3.Not(z3.Select(c.g("$mutated"), o))))] + [("the-steering-values-taken-from-~V-and-~W-are-final: NULL", same("provisional_null")),
            ("the-steering-values-taken-from-~V-and-~W-are-final: VERS", same("provisional_version")),
            ("the-steering-values-taken-from-~V-and-~W-are-final: WRAP", same("provisional_wrapped")),
            ("the-steering-values-taken-from-~V-and-~W-are-final: DLM", same("provisional_delimiter"))]


REG.add(Contract("reader.define_line_splitter", params={"provisional_delimiter": "any"}, returns=OBJ, assumed=True, noraise=True, only_on_request=False,
                 note="returns a splitter function; touches no LASFile state", properties=("C05", "C06")))
REG.add(Contract("reader.get_substitutions", case="callee", params={"read_policy": "any", "null_policy": "any"}, returns=TUPLE(OBJ, OBJ, OBJ),
                 assumed=True, may_raise=["Any"],
                 ensures=lambda c: [("a-function-of-the-two-policies", z3.And([
                     c.res.items[i_].t == gs_tables(c.eng.to_obj(c.a["read_policy"]), c.eng.to_obj(c.a["null_policy"]), z3.IntVal(i_)) for i_ in range(3)]))],
                 note="as a callee of LASFile.read: a pure table lookup (executed on the real tables in the C06 lemma)", properties=("C05", "C06")))

R4A = REG.add(Contract(
    "las.LASFile.read#R4a-after-the-section-loop",
    params={"self": API.LAS, "provisional_version": OBJ, "provisional_wrapped": OBJ, "provisional_null": OBJ, "provisional_delimiter": OBJ,
            "read_policy": OBJ, "null_policy": OBJ},
    ensures=r4a_post, verify_with=r4a_verify, may_raise=["Any"], free_default=True, modifies={}, ghost_init=r4a_init,
    properties=("C05", "C06", "C02")))


# ---------------------------------------------------------------- R8: curves without a data column are filled with NaN
np_empty = z3.Function("np_empty", PyObj, PyObj)          # numpy.empty(n): a new float64 array of length n (T-np)
py_mul = z3.Function("py_binop_Mult", PyObj, PyObj, PyObj)


def nan_fill(c):
    nan = z3.Const("ext_%s" % __import__("hashlib").sha1(b"mod:np.nan").hexdigest()[:10], PyObj)
    return py_mul(np_empty(obj_of_int(c.a["curve_length"].t)), nan)


REG.add(Contract("lib:np.empty", params={"shape": "any"}, assumed=True, noraise=True,
                 returns=lambda c: VObj(np_empty(c.eng.to_obj(c.a["shape"]))),
                 note="T-np: numpy.empty(n) is a float64 array of length n; multiplied by nan it is all NaN", properties=("C07",)))


def r8_state(c, i):
    v, v0 = API.cv(c), API.cv(c, old=True)
    flags = c.a["data_assigned_to_curves"]
    data, data0 = c.h("data"), c.old("data")
    return [
        ("curve-list-unchanged", z3.And(v.n == v0.n, v.A == v0.A, v.s == v0.s)),
        ("a-curve-without-a-column-holds-float-NaN-of-the-common-length", forall(q, z3.Implies(
            z3.And(0 <= q, q < i, z3.Not(z3.Select(flags.cols[0], q))), z3.Select(data, v.item(q)) == nan_fill(c)))),
        ("curves-that-got-a-column-keep-it", forall(q, z3.Implies(
            z3.And(0 <= q, q < v.n, z3.Or(q >= i, z3.Select(flags.cols[0], q))), z3.Select(data, v.item(q)) == z3.Select(data0, v.item(q))))),
    ]


R8 = REG.add(Contract(
    "las.LASFile.read#R8-nan-fill",
    params={"self": API.LAS, "data_assigned_to_curves": LIST(BOOL), "curve_length": INT},
    requires=lambda c: API.las_shape(c) + [("distinct-curve-objects", LI.distinct_objects(API.cv(c))),
                                           ("one-flag-per-curve", c.a["data_assigned_to_curves"].n == API.cv(c).n)],
    ensures=lambda c: r8_state(c, c.a["data_assigned_to_curves"].n),
    loops={0: lambda c: r8_state(c, c.i)}, loop_fields=["data"], dict_like=("data_assigned_to_curves",),
    modifies={"data": None},
    verify_with=block_verifier("las.LASFile.read", "for curve_idx, ", 1, "las"),
    properties=("C07",), may_raise=["Any"]))
R8.note = "np.empty(n) * np.nan is an opaque numpy expression (T-np: float64 NaN array of length n)"
