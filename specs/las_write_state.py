"""C16: what write() may change in memory: update_units_from_index_curve,
update_start_stop_step and the refresh decision block W2 of writer.write."""
import z3
from pyvc.values import *
from pyvc.spec import Contract
from pyvc import blocks as BL
from .common import *
from . import las_items as LI
from . import las_api as API
from . import writer as W

REG.classes["LASFile"]["fields"].update({"index_initial": OBJ, "index_unit": OBJ, "_text": OBJ})
p, kk = z3.Int("p"), z3.Int("kk")
LAS = API.LAS
K_STRT, K_STOP, K_STEP = z3.StringVal("STRT"), z3.StringVal("STOP"), z3.StringVal("STEP")


def wv(c, old=False):
    """view of las.well"""
    hh = c.old if old else c.h
    sname = "self" if "self" in c.a else "las"

    class _V(LI.View):
        def __init__(s):
            s.s = z3.Select(hh("$sec_Well"), c.a[sname].t)
            s.n = z3.simplify(z3.Select(hh("$len"), s.s))
            s.A = z3.simplify(z3.Select(hh("$items"), s.s))
            s.orig, s.sess = hh("original_mnemonic"), hh("mnemonic")
            s.tr = z3.Select(hh("mnemonic_transforms"), s.s)
            s.alloc = hh("$alloc")
    return _V()


def item_named(v, key, r):
    """r is the first item of the section whose session name matches key"""
    return z3.Exists([kk], z3.And(LI.first_match(v, key, kk), v.item(kk) == r))


def three(c, r, old=True):
    v = wv(c, old)
    return z3.Or(item_named(v, K_STRT, r), item_named(v, K_STOP, r), item_named(v, K_STEP, r))


def well_shape(c):
    v = wv(c)
    sname = "self" if "self" in c.a else "las"
    cvw = API.cv(_SelfAlias(c, sname))
    return [("well-len>=0", v.n >= 0), ("well-allocated", z3.Select(v.alloc, v.s)),
            ("well-items-allocated", LI.forall(p, z3.Implies(v.inrange(p), z3.And(z3.Select(v.alloc, v.item(p)), v.item(p) != v.s)))),
            ("curves-len>=0", cvw.n >= 0), ("curves-allocated", z3.Select(v.alloc, cvw.s)),
            ("curves-items-allocated", LI.forall(p, z3.Implies(cvw.inrange(p), z3.And(z3.Select(v.alloc, cvw.item(p)), cvw.item(p) != cvw.s)))),
            ("well-and-curves-are-different-sections", v.s != cvw.s),
            ("las-allocated", z3.And(z3.Select(v.alloc, c.a[sname].t), cvw.s != c.a[sname].t, v.s != c.a[sname].t))]


class _SelfAlias:
    def __init__(s, c, name):
        s.__dict__.update(c.__dict__)
        s.a = dict(c.a); s.a["self"] = c.a[name]
        s._c = c

    def h(s, f): return s._c.h(f)
    def old(s, f): return s._c.old(f)


def missing_any(c):
    v = wv(c)
    return z3.Or(LI.nomatch(v, K_STRT), LI.nomatch(v, K_STOP), LI.nomatch(v, K_STEP))


def units_region(c, r):
    cvw = API.cv(c, old=True)
    return z3.Or(three(c, r), z3.And(cvw.n > 0, r == cvw.item(0)))


def uu_post(c):
    v0 = wv(c, old=True)
    cvw = API.cv(c, old=True)
    unit, unit0 = c.h("unit"), c.old("unit")
    r = z3.Int("r_u")
    src = z3.If(z3.And(cvw.n > 0, truthy(z3.Select(unit0, cvw.item(0)))), z3.Select(unit0, cvw.item(0)), W_unit_of(c, K_STRT))
    return [("STRT-STOP-STEP-and-index-curve-units-aligned", z3.ForAll([r], z3.Implies(units_region(c, r), z3.Select(unit, r) == src))),
            ("idempotent: aligned-units-stay-as-they-are", z3.Implies(
                z3.ForAll([r], z3.Implies(units_region(c, r), z3.Select(unit0, r) == src)), unit == unit0))]


def W_unit_of(c, key):
    v0 = wv(c, old=True)
    f = z3.Function("unit_of_first_" + str(key).strip('"'), z3.ArraySort(I, PyObj), z3.ArraySort(I, I), I, PyObj)
    return f(c.old("unit"), v0.A, v0.n)


UU = REG.add(Contract(
    "las.LASFile.update_units_from_index_curve", params={"self": LAS},
    requires=lambda c: well_shape(c) + [("distinct-well-items", LI.distinct_objects(wv(c)))],
    raises=[("KeyError", missing_any)],
    ensures=lambda c: [("only-units-of-STRT-STOP-STEP-and-the-first-curve-change", z3.BoolVal(True))],
    modifies={"unit": units_region}, properties=("C16",)))


def values_region(c, r):
    return three(c, r)


USSS = REG.add(Contract(
    "las.LASFile.update_start_stop_step", params={"self": LAS, "STRT": NONE, "STOP": NONE, "STEP": NONE, "fmt": STR},
    requires=lambda c: well_shape(c) + [("distinct-well-items", LI.distinct_objects(wv(c)))],
    raises=[("KeyError", missing_any)],
    ensures=lambda c: [("only-the-values-of-STRT-STOP-STEP-change", z3.BoolVal(True))],
    modifies={"value": values_region}, may_raise=["Any"], properties=("C16",)))
USSS.note = "fmt % index[0] and index arithmetic are opaque numpy/format operations that may raise"


arr_equal = z3.Function("np_array_equal", PyObj, PyObj, B)
REG.add(Contract("lib:np.array_equal", params={"a1": "any", "a2": "any"}, assumed=True, noraise=True,
                 returns=lambda c: VBool(arr_equal(c.eng.to_obj(c.a["a1"]), c.eng.to_obj(c.a["a2"]))),
                 note="T-np: numpy.array_equal is a function of its two arguments (exact element-wise equality and equal shapes)",
                 properties=("C16", "C11")))


# ---- W2: the refresh decision of writer.write
def w2_verify(E, c):
    body, fn = BL.find_block(E, "writer.write", "after:if version == 1.2:", "las.update_units_from_index_curve()")
    return E.verify(c, fnode=fn, body=body, module="writer")


def w2_region_value(c, r):
    return three(c, r)


W2 = REG.add(Contract(
    "writer.write#W2-refresh",
    params={"las": LAS, "STRT": NONE, "STOP": NONE, "STEP": NONE},
    requires=lambda c: well_shape(c) + [("distinct-well-items", LI.distinct_objects(wv(c)))],
    raises=[("KeyError", missing_any)],
    ensures=lambda c: [("write-changes-only-STRT-STOP-STEP-values-and-units-and-the-first-curve's-unit", z3.BoolVal(True)),
                       ("an-index-that-differs-from-the-snapshot-in-any-sample-counts-as-changed (exact array equality, no tolerance)", z3.Implies(
                           z3.Not(is_none(z3.Select(c.old("index_initial"), c.a["las"].t))),
                           c.v("index_changed").t == z3.Not(arr_equal(z3.Select(c.old("index_initial"), c.a["las"].t),
                                                                     z3.Select(c.old("data"), API.cv(_SelfAlias(c, "las"), old=True).item(0)))))),
                       ("a-header-STOP-that-differs-from-the-last-sample-of-the-snapshot-counts-as-different (exact comparison, no tolerance)",
                        z3.Implies(z3.Not(is_none(z3.Select(c.old("index_initial"), c.a["las"].t))), z3.ForAll([z3.Int("r_stop")], z3.Implies(
                            item_named(wv(c, old=True), K_STOP, z3.Int("r_stop")),
                            c.v("stop_is_different").t == z3.Not(W.py_eq(
                                z3.Function("py_getitem", PyObj, PyObj, PyObj)(z3.Select(c.old("index_initial"), c.a["las"].t), obj_of_int(z3.IntVal(-1))),
                                z3.Select(c.old("value"), z3.Int("r_stop")))))))),
                       ("without-a-snapshot-the-index-counts-as-changed", z3.Implies(
                           is_none(z3.Select(c.old("index_initial"), c.a["las"].t)), c.v("index_changed").t)),
                       ("no-refresh-when-the-index-is-unchanged-and-STOP-agrees", z3.Implies(
                           z3.And(z3.Not(is_none(z3.Select(c.old("index_initial"), c.a["las"].t))),
                                  z3.Not(c.v("index_changed").t), z3.Not(c.v("stop_is_different").t)),
                           c.h("value") == c.old("value")))],
    modifies={"value": w2_region_value, "unit": lambda c, r: units_region(_SelfAlias(c, "las"), r)},
    may_raise=["Any", "AttributeError"], verify_with=w2_verify, free_default=True,
    properties=("C16",)))
W2.note = "np.array_equal and index_initial[-1] are opaque numpy operations"


# ---- R10: the tail of LASFile.read remembers a COPY of the index (so that later in-place edits are detected by write())
copy_of = z3.Function("py_call_0", PyObj, PyObj)      # opaque zero-argument method call: obj.copy()
attr_copy = z3.Function("py_attr_copy", PyObj, PyObj)


def r10_verify(E, c):
    body, fn = BL.find_block(E, "las.LASFile.read", "if len(self.curves) > 0:", "self.index_initial")
    return E.verify(c, fnode=fn, body=body, module="las")


R10 = REG.add(Contract(
    "las.LASFile.read#R10-index-snapshot", params={"self": LAS},
    requires=lambda c: API.las_shape(c),
    ensures=lambda c: [("index_initial-is-a-copy-of-the-index-not-the-index-itself", z3.Implies(
        API.cv(c).n > 0,
        z3.Select(c.h("index_initial"), c.a["self"].t) == copy_of(attr_copy(z3.Select(c.h("data"), API.cv(c).item(0))))))],
    modifies={"index_initial": lambda c, r: r == c.a["self"].t},
    verify_with=r10_verify, may_raise=["Any"], properties=("C16",)))
R10.note = "ndarray.copy() is an opaque method call (T-np: returns a new array with equal contents)"
