"""Languages assumed for numpy/CPython string-to-number conversion (T-re) and the
statement's literal grammar.  No z3 import: also loaded by bounded/axioms_check.py
under /venv/bin/python."""
import os, sys
sys.path.insert(0, os.path.dirname(os.path.dirname(os.path.abspath(__file__))))
import importlib.util as _u
_spec = _u.spec_from_file_location("pyvc_rx", os.path.join(os.path.dirname(os.path.dirname(os.path.abspath(__file__))), "pyvc", "rx.py"))
rx = _u.module_from_spec(_spec); _spec.loader.exec_module(rx)

D = rx.rng("0", "9")
DIGITS = rx.plus(D)
SIGN = rx.opt(rx.alt(rx.lit("+"), rx.lit("-")))
WS = rx.star(rx.alt(rx.lit(" "), rx.lit("\t"), rx.lit("\n"), rx.lit("\r"), rx.lit("\x0b"), rx.lit("\x0c")))
EXP = rx.cat(rx.alt(rx.lit("e"), rx.lit("E")), SIGN, DIGITS)
# what int()/np.int64() accept, underscores excluded (num() rejects '_' itself)
L_INT = rx.cat(WS, SIGN, DIGITS, WS)
FLOATNUM = rx.alt(rx.cat(DIGITS, rx.opt(rx.cat(rx.lit("."), rx.opt(DIGITS))), rx.opt(EXP)),
                  rx.cat(rx.lit("."), DIGITS, rx.opt(EXP)))
FLOATWORD = rx.alt(rx.word_ci("inf"), rx.word_ci("infinity"), rx.word_ci("nan"))
# what float()/np.float64() accept (no underscores): numbers, and the non-finite words
L_FLOAT_NUM = rx.cat(WS, SIGN, FLOATNUM, WS)
L_FLOAT_WORD = rx.cat(WS, SIGN, FLOATWORD, WS)
# the statement's literal grammar after the comma->dot substitution
MUST = rx.cat(SIGN, DIGITS, rx.opt(rx.cat(rx.lit("."), DIGITS)), rx.opt(EXP))
# generous grammar: everything outside it MUST be kept verbatim
GENEROUS = rx.cat(SIGN, FLOATNUM)

