"""K3: reader.parse_header_items_section (C05, C09, C19) and its callees'
contracts (read_line assumed: regex captures are outside SMT reach, DESIGN 2.9)."""
import z3
from pyvc.values import *
from pyvc.spec import Contract
from .common import *
from . import las_items as LI

REG.classes["HeaderItem"]["fields"]["$line"] = INT      # ghost: source line of an item
REG.classes["SectionParser"] = {
    "module": "reader", "bases": [], "closed": True,
    "fields": {"section_name2": STR, "section_name": STR, "default_order": STR, "version": OBJ},
}

k, q = z3.Int("k"), z3.Int("q")

# what read_header_line extracts from a stripped line, per section name: opaque
# functions (their meaning is C04's business); `parses` = the regex matched
f_name = z3.Function("hdr_name", S, S, S)
f_unit = z3.Function("hdr_unit", S, S, S)
f_value = z3.Function("hdr_value", S, S, S)
f_descr = z3.Function("hdr_descr", S, S, S)
parses = z3.Function("hdr_parses", S, S, B)
hrank = z3.Function("hrank", I, I)        # accepted lines of the section before line k
secname_of = z3.Function("parser_section_name2", S, S)   # SectionParser(title).section_name2


def sline(kk):
    """the line as the loop sees it: line.strip("\\n").strip()"""
    return strip(strip_nl(z3.Select(LINES, kk)))


def is_comment(kk):
    return z3.SubString(sline(kk), 0, 1) == z3.StringVal("#")


def accepted(kk, sec):
    return z3.And(z3.Length(sline(kk)) > 0, z3.Not(is_comment(kk)), parses(sline(kk), sec))


def bad(kk, sec):
    return z3.And(z3.Length(sline(kk)) > 0, z3.Not(is_comment(kk)), z3.Not(parses(sline(kk), sec)))


def casemap(case, x):
    cs = z3.simplify(case)
    if z3.is_string_value(cs):
        return {"upper": upper(x), "lower": lower(x), "preserve": x}[pystr(cs)]
    return z3.If(case == z3.StringVal("upper"), upper(x), z3.If(case == z3.StringVal("lower"), lower(x), x))


# ---- read_line: assumed contract (T-re).  Deterministic in (line, section name).
def read_line_result(c):
    ln, sec = c.a["line"].t, c.a["section_name"].t
    return VDict({"name": VStr(f_name(ln, sec)), "unit": VStr(f_unit(ln, sec)),
                  "value": VStr(f_value(ln, sec)), "descr": VStr(f_descr(ln, sec))})


REG.add(Contract(
    "reader.read_line", params={"line": STR, "section_name": STR},
    raises=[("Any", lambda c: z3.Not(parses(c.a["line"].t, c.a["section_name"].t)))],
    returns=read_line_result, assumed=True,
    note="T-re: read_header_line returns a dict of four str fields that depends only on (line, section name), or raises; "
         "field extraction itself is decided by the bounded C04 harness",
    properties=("C05", "C19")))

REG.add(Contract(
    "reader.SectionParser.__init__", params={"self": REF("SectionParser"), "title": STR, "version": OBJ},
    ensures=lambda c: [("name2", z3.Select(c.h("section_name2"), c.a["self"].t) == secname_of(c.a["title"].t))],
    modifies={"section_name2": lambda c, r: r == c.a["self"].t, "section_name": lambda c, r: r == c.a["self"].t,
              "default_order": lambda c, r: r == c.a["self"].t, "version": lambda c, r: r == c.a["self"].t},
    assumed=True, noraise=True,
    note="SectionParser.__init__ for version in {1.2, 2.0} is verified on the concrete order tables under C12; here only "
         "'section_name2 is a function of the title' is used",
    properties=("C05", "C19")))


def parser_call_post(c):
    keys = c.a["keys"].d
    r = c.res.t
    return [
        ("item-from-these-fields", z3.Select(c.h("original_mnemonic"), r) == keys["name"].t),
        ("session=useful", z3.Select(c.h("mnemonic"), r) == LI.useful(c.h("original_mnemonic"), r)),
        ("new-object", z3.Not(z3.Select(c.old("$alloc"), r))),
    ]


PARSER_CALL = REG.add(Contract(
    "reader.SectionParser.__call__", params={"self": REF("SectionParser"), "keys": "dict"},
    ensures=parser_call_post, returns=LI.HI, fresh_result=True, assumed=True, noraise=True,
    modifies={f: (lambda c, r: z3.Not(z3.Select(c.old("$alloc"), r))) for f in LI.HI_FIELDS},
    note="SectionParser.__call__ dispatches to metadata/params/curves, each verified under C08/C19 to build the item "
         "from keys['name'] without raising",
    properties=("C05", "C19")))

def member_of(c, r):
    v = LI.View(c)
    pp = z3.Int("pm")
    return z3.Exists([pp], z3.And(v.inrange(pp), v.item(pp) == r))


# weak contract of append for callers that only need the list shape
APPEND_SHAPE = REG.add(Contract(
    "las_items.SectionItems.append", case="shape", params={"self": LI.SI, "newitem": LI.HI},
    requires=lambda c: LI.shape(c) + [("new-item-allocated", z3.And(z3.Select(LI.View(c).alloc, c.a["newitem"].t),
                                                                   c.a["newitem"].t != c.a["self"].t))],
    ensures=lambda c: [("appended-at-end", LI.appended(LI.View(c), LI.View(c, old=True), c.a["newitem"].t)),
                       ("originals-never-altered", c.h("original_mnemonic") == c.old("original_mnemonic"))],
    modifies=dict(LI.SEQ_FRAME, mnemonic=lambda c, r: z3.Or(r == c.a["newitem"].t, member_of(c, r))),
    only_on_request=True, noraise=True,
    use={"las_items.SectionItems.assign_duplicate_suffixes": "shape"},
    properties=("C05", "C19")))

ADS_SHAPE = REG.add(Contract(
    "las_items.SectionItems.assign_duplicate_suffixes", case="shape",
    params={"self": LI.SI, "test_mnemonic": STR},
    requires=LI.shape, ensures=lambda c: [],
    modifies={"mnemonic": lambda c, r: member_of(c, r)}, loops={1: lambda c: LI.seq_unchanged(c) + [
        ("locations-in-range", forall(q, z3.Implies(z3.And(0 <= q, q < c.v("locations").n),
                                                    z3.And(0 <= z3.Select(c.v("locations").cols[0], q),
                                                           z3.Select(c.v("locations").cols[0], q) < c.i)))),
        ("i-in-range", c.i <= LI.View(c).n)], 2: lambda c: LI.seq_unchanged(c) + [
        ("locations-in-range", forall(q, z3.Implies(z3.And(0 <= q, q < c.v("locations").n),
                                                    z3.And(0 <= z3.Select(c.v("locations").cols[0], q),
                                                           z3.Select(c.v("locations").cols[0], q) < LI.View(c).n))))]},
    local_types={"locations": LIST(INT)}, only_on_request=True, noraise=True,
    note="safety only: never raises, touches only session names",
    properties=("C05", "C19")))

SETATTR_FLAG = REG.add(Contract(
    "las_items.SectionItems.__setattr__", case="transforms-flag",
    params={"self": LI.SI, "key": CONST("mnemonic_transforms"), "value": BOOL},
    requires=lambda c: LI.shape(c) + [("no-item-of-that-name", LI.nomatch(LI.View(c), z3.StringVal("mnemonic_transforms")))],
    ensures=lambda c: [("flag-set", z3.Select(c.h("mnemonic_transforms"), c.a["self"].t) == c.a["value"].t)],
    modifies={"mnemonic_transforms": LI.only_self}, noraise=True, prune=True, properties=("C05", "C19", "C15")))

REG.add(Contract(
    "las_items.SectionItems.__init__", params={"self": LI.SI},
    ensures=lambda c: [("the-list-part-is-what-list.__init__-made-of-the-argument (empty without one)", z3.And(
                           z3.Select(c.h("$len"), c.a["self"].t) == z3.Select(c.old("$len"), c.a["self"].t),
                           z3.Select(c.h("$items"), c.a["self"].t) == z3.Select(c.old("$items"), c.a["self"].t))),
                       ("case-sensitive-by-default", z3.Not(z3.Select(c.h("mnemonic_transforms"), c.a["self"].t)))],
    modifies={"mnemonic_transforms": LI.only_self}, assumed=True, noraise=True,
    note="SectionItems(items?): list.__init__ (modelled by the engine's constructor: the literal list argument, or empty) then "
         "mnemonic_transforms = False (the body uses *args/**kwargs, outside the subset)",
    properties=("C05", "C19")))


# ---------------------------------------------------------------- K3
def k3_pre(c):
    t, e = c.a["line_nos"].items[0].t, c.a["line_nos"].items[1].t
    return [
        ("cursor-at-title", cursor(c) == t),
        ("title-in-file", z3.And(0 <= t, t < NLINES, t <= e, e < NLINES)),
        ("no-title-inside-the-body", forall(k, z3.Implies(z3.And(t < k, k <= e), z3.Not(T(k))))),
        ("body-ends-at-next-title-or-eof", z3.Or(e == NLINES - 1, T(e + 1))),
        ("ignore_comments-default", z3.BoolVal(True)),
    ]


def k3_ctx(c):
    t, e = c.a["line_nos"].items[0].t, c.a["line_nos"].items[1].t
    sec = secname_of(strip(strip_nl(z3.Select(LINES, t))))
    return t, e, sec


def k3_init(c, st):
    file_init()(c, st)
    t, e, sec = k3_ctx(c)
    st.assume(hrank(t + 1) == 0)
    step = z3.ForAll([k], z3.Implies(k > t, hrank(k + 1) == hrank(k) + z3.If(accepted(k, sec), 1, 0)), patterns=[hrank(k + 1)])
    st.ghost["ax:hrank-step"] = step
    st.assume(step)
    st.assume(z3.ForAll([k], z3.Implies(k > t, hrank(k) >= 0), patterns=[hrank(k)]))


def k3_view(c):
    sect = c.v("section").t
    n = z3.Select(c.h("$len"), sect)
    A = z3.Select(c.h("$items"), sect)
    return sect, n, A


def untouched_old(c, fields):
    """objects that existed at entry are not written"""
    r = z3.Int("r_old")
    alloc0 = c.old("$alloc")
    return [("pre-existing-objects-untouched:" + f,
             z3.ForAll([r], z3.Implies(z3.Select(alloc0, r), z3.Select(c.h(f), r) == z3.Select(c.old(f), r))))
            for f in fields]


K3_LOOP_FIELDS = ["$cursor", "$len", "$items", "$alloc", "$line", "mnemonic", "original_mnemonic", "unit", "value",
                  "descr", "data", "$cls", "mnemonic_transforms"]


def k3_inv(c):
    t, e, sec = k3_ctx(c)
    sect, n, A = k3_view(c)
    i = c.i
    line_no = c.v("line_no").t
    src = lambda x: z3.Select(c.h("$line"), z3.Select(A, x))
    case = c.a["mnemonic_case"].t
    r = z3.Int("r_al")
    return [
        ("line_no", line_no == t + i),
        ("within-body", z3.Or(line_no < e, z3.And(line_no == e, e == t))),
        ("alloc-grows", z3.ForAll([r], z3.Implies(z3.Select(c.old("$alloc"), r), z3.Select(c.h("$alloc"), r)))),
        ("section-fresh", z3.And(z3.Not(z3.Select(c.old("$alloc"), sect)), z3.Select(c.h("$alloc"), sect), n >= 0)),
        ("count", n == hrank(line_no + 1)),
        ("items-fresh", forall(q, z3.Implies(z3.And(0 <= q, q < n), z3.And(
            z3.Not(z3.Select(c.old("$alloc"), z3.Select(A, q))), z3.Select(c.h("$alloc"), z3.Select(A, q)), z3.Select(A, q) != sect)))),
        ("items-come-from-accepted-lines-in-order", forall(q, z3.Implies(z3.And(0 <= q, q < n), z3.And(
            t < src(q), src(q) <= line_no, accepted(src(q), sec), hrank(src(q)) == q)))),
        ("item-fields", forall(q, z3.Implies(z3.And(0 <= q, q < n),
                                             z3.Select(c.h("original_mnemonic"), z3.Select(A, q)) == casemap(case, f_name(sline(src(q)), sec))))),
        ("every-accepted-line-has-its-item", forall(k, z3.Implies(z3.And(t < k, k <= line_no, accepted(k, sec)), z3.And(
            hrank(k) < n, src(hrank(k)) == k)))),
        ("no-bad-line-so-far", z3.Implies(z3.Not(c.a["ignore_header_errors"].t),
                                          forall(k, z3.Implies(z3.And(t < k, k <= line_no), z3.Not(bad(k, sec)))))),
        ("parser", z3.And(z3.Select(c.h("section_name2"), c.v("parser").t) == sec,
                          z3.Not(z3.Select(c.old("$alloc"), c.v("parser").t)))),
        ("transforms", z3.Select(c.h("mnemonic_transforms"), sect) == (case != z3.StringVal("preserve"))),
    ] + untouched_old(c, [f for f in K3_LOOP_FIELDS if f not in ("$cursor", "$alloc", "$cls")])


def k3_post(c):
    t, e, sec = k3_ctx(c)
    sect = c.res.t
    n = z3.Select(c.h("$len"), sect)
    A = z3.Select(c.h("$items"), sect)
    src = lambda x: z3.Select(c.h("$line"), z3.Select(A, x))
    case = c.a["mnemonic_case"].t
    return [
        ("consumed-lines=body(+next-title-if-the-section-is-empty)",
         z3.Or(cursor(c) == e + 1, z3.And(t == e, cursor(c) == e + 2))),
        ("result-is-a-new-section", z3.Not(z3.Select(c.old("$alloc"), sect))),
        ("result-is-a-well-shaped-section-of-new-items", z3.And(n >= 0, z3.Select(c.h("$alloc"), sect), forall(q, z3.Implies(
            z3.And(0 <= q, q < n), z3.And(z3.Select(c.h("$alloc"), z3.Select(A, q)), z3.Select(A, q) != sect,
                                          z3.Not(z3.Select(c.old("$alloc"), z3.Select(A, q)))))))),
        ("one-item-per-accepted-line", n == hrank(e + 1)),
        ("items-come-from-this-section's-lines-in-order", forall(q, z3.Implies(z3.And(0 <= q, q < n), z3.And(
            t < src(q), src(q) <= e, accepted(src(q), sec), hrank(src(q)) == q)))),
        ("each-item-is-a-function-of-its-own-line", forall(q, z3.Implies(
            z3.And(0 <= q, q < n), z3.Select(c.h("original_mnemonic"), z3.Select(A, q)) == casemap(case, f_name(sline(src(q)), sec))))),
        ("no-accepted-line-dropped", forall(k, z3.Implies(z3.And(t < k, k <= e, accepted(k, sec)), z3.And(
            hrank(k) < n, src(hrank(k)) == k)))),
        ("case-normalised-sections-compare-case-insensitively",
         z3.Select(c.h("mnemonic_transforms"), sect) == (case != z3.StringVal("preserve"))),
    ]


def k3_raises(c):
    t, e, sec = k3_ctx(c)
    return z3.And(z3.Not(c.a["ignore_header_errors"].t), z3.Exists([k], z3.And(t < k, k <= e, bad(k, sec))))


def k3_append_hook(c, st):
    # ghost: remember which line the item being appended came from
    item = st.env["item"]
    f = st.env["file_obj"]
    cur = z3.Select(c.eng.heap(st, "$cursor"), f.t)
    st.heap["$line"] = z3.Store(c.eng.heap(st, "$line"), item.t, cur - 1)


def k3_contracts():
    return [REG.add(Contract(
        "reader.parse_header_items_section",
        params={"file_obj": FILE, "line_nos": TUPLE(INT, INT), "version": OBJ, "ignore_header_errors": BOOL,
                "mnemonic_case": STR, "ignore_comments": CONST(("#",))},
        requires=lambda c: k3_pre(c) + [("mnemonic_case-is-one-of-the-three", z3.Or(
            c.a["mnemonic_case"].t == z3.StringVal("upper"), c.a["mnemonic_case"].t == z3.StringVal("lower"),
            c.a["mnemonic_case"].t == z3.StringVal("preserve")))],
        ensures=k3_post,
        raises=[("LASHeaderError", k3_raises)],
        modifies={"$cursor": None},
        loops={0: k3_inv}, loop_anchor={0: "enumerate(file_obj)"},
        break_cut={0: ["if line_no == line_nos[1]"]}, break_cut_skip=("within-body",),
        loop_hints={0: lambda c: [(c.g("ax:hrank-step"), [c.v("line_no").t + 1])]},
        ghost_init=k3_init, hooks={"section.append(item)": k3_append_hook},
        returns=LI.SI, reveal=("io",),
        use={"las_items.SectionItems.append": "shape"},
        loop_fields=K3_LOOP_FIELDS,
        properties=("C05", "C09", "C19", "C04")))]


K3 = k3_contracts()
