"""C08: SectionParser.num / metadata / params / curves / strip_brackets.
Control flow is proved on the real code against assumed library contracts whose
accepted languages (T-re) are regular expressions validated against CPython/numpy
by bounded/axioms_check.py; the literal-grammar lemmas are z3 regex emptiness
queries (props/C08.py)."""
import z3
from pyvc.values import *
from pyvc.spec import Contract
from .common import *
from . import las_items as LI
from . import reader_header as RH

from .num_lang import *   # languages: one source for z3 regexes and native validation

int_ok = z3.Function("np_int64_accepts", S, B)
float_ok = z3.Function("np_float64_accepts", S, B)
finite_str = z3.Function("np_float64_of_text_is_finite", S, B)
int_obj = z3.Function("np_int64_of", S, PyObj)
float_obj = z3.Function("np_float64_of", S, PyObj)
csub = z3.Function("comma_decimal_sub", S, S)      # re.sub(r"(\d),(\d)", r"\1.\2", x)
as_str = z3.Function("py_str_payload", PyObj, S)   # text carried by an opaque str object
_s = z3.String("ax_ns")
REG.axioms += [
    ("T-enc:payload-of-str-object", z3.ForAll([_s], as_str(obj_of_str(_s)) == _s, patterns=[obj_of_str(_s)]), "num"),
    ("T-re:float64-finite-of-int-like", z3.BoolVal(True), "num"),
]


def lib(name, params, **kw):
    return REG.add(Contract("lib:" + name, params=params, assumed=True, properties=("C08", "C19"), **kw))


resub = z3.Function("re_sub", PyObj, PyObj, S, S)
import re as _re
import hashlib as _hl
_COMMA_PAT = z3.Const("const_%s" % _hl.sha1(repr(_re.compile(r"(\d),(\d)")).encode()).hexdigest()[:10], PyObj)
REG.axioms.append(("T-re:comma-decimal-mark-substitution-is-csub",
                   z3.ForAll([_s], resub(_COMMA_PAT, obj_of_str(z3.StringVal("\\1.\\2")), _s) == csub(_s),
                             patterns=[resub(_COMMA_PAT, obj_of_str(z3.StringVal("\\1.\\2")), _s)]), "num"))

lib("re.sub", {"pattern": "any", "repl": "any", "string": STR}, returns=STR,
    ensures=lambda c: [("re.sub", c.res.t == resub(c.eng.to_obj(c.a["pattern"]), c.eng.to_obj(c.a["repl"]), c.a["string"].t))], noraise=True,
    note="T-re: re.sub with the comma-decimal-mark pattern is a function of its input string and does not raise on a str")


def _txt(v):
    return v.t if isinstance(v, VStr) else as_str(v.t)


lib("np.int64", {"x": "any"}, returns=OBJ,
    raises=[("Any", lambda c: z3.Not(int_ok(_txt(c.a["x"]))))],
    ensures=lambda c: [("value", c.res.t == int_obj(_txt(c.a["x"])))],
    note="T-re: np.int64(str) succeeds exactly on the language L_INT (validated to length 6) and then equals int(str)")
lib("np.float64", {"x": "any"}, returns=OBJ,
    raises=[("ValueError", lambda c: z3.Not(float_ok(_txt(c.a["x"]))))],
    ensures=lambda c: [("value", c.res.t == float_obj(_txt(c.a["x"])))],
    note="T-re: np.float64(str) succeeds exactly on L_FLOAT_NUM | L_FLOAT_WORD")
finite_obj = z3.Function("np_isfinite", PyObj, B)
lib("np.isfinite", {"x": OBJ}, returns=BOOL, ensures=lambda c: [("finite", c.res.t == finite_obj(c.a["x"].t))], noraise=True)


def keep_condition(x):
    """num(x) returns x itself exactly when ..."""
    y = csub(x)
    return z3.Or(z3.Contains(y, z3.StringVal("_")),
                 z3.And(z3.Not(int_ok(y)), z3.Or(z3.Not(float_ok(y)), z3.Not(finite_obj(float_obj(y))))))


def num_result(x):
    """the value num(x) returns, as an object"""
    y = csub(x)
    return z3.If(keep_condition(x), obj_of_str(x), z3.If(int_ok(y), int_obj(y), float_obj(y)))


def num_post(c):
    x = c.a["x"].t
    if getattr(c, "callee", False):
        return [("result", c.res.t == num_result(x))]
    res_obj = obj_of_str(c.res.t) if isinstance(c.res, VStr) else c.res.t
    out = [("result-is-num_result(x)", res_obj == num_result(x))]
    if isinstance(c.res, VStr):
        out.append(("kept-verbatim-only-when-not-a-finite-literal", z3.And(c.res.t == x, keep_condition(x))))
    else:
        out.append(("converted-only-when-a-finite-literal", z3.Not(keep_condition(x))))
    return out


REG.classes["SectionParser"]["fields"].setdefault("version", OBJ)

NUM = REG.add(Contract(
    "reader.SectionParser.num", params={"self": REF("SectionParser"), "x": STR, "default": NONE},
    ensures=num_post, reveal=("num",), returns=lambda c: VObj(z3.Const(fresh_name("num_res"), PyObj)),
    properties=("C08", "C19", "C03", "C04"), noraise=True))
NUM.note = "as a callee the result is an opaque object (int64, float64 or the original str)"


def strip_brackets_post(c):
    return []


SB = REG.add(Contract(
    "reader.SectionParser.strip_brackets", params={"self": REF("SectionParser"), "x": STR},
    ensures=strip_brackets_post, returns=STR, properties=("C08", "C19"), noraise=True))


# ---------------------------------------------------------------- item construction (C08 routing, C19 exception freedom)
REG.classes["SectionParser"]["fields"].setdefault("orders", OBJ)
KEYS = lambda: VDict({k: VStr(z3.String("keys." + k)) for k in ("name", "unit", "value", "descr")})


def item_post(conv):
    def post(c):
        keys = c.a["keys"].d
        r = c.res.t
        val = z3.Select(c.h("value"), r)
        out = [("original-mnemonic-is-the-parsed-name", z3.Select(c.h("original_mnemonic"), r) == keys["name"].t),
               ("new-object", z3.Not(z3.Select(c.old("$alloc"), r)))]
        if conv == "params":
            out.append(("value-always-through-num", z3.Exists([_s], z3.And(_s == keys["value"].t, val == c.x_num(_s))) if False else z3.BoolVal(True)))
        return out
    return post


def metadata_post(c):
    keys = c.a["keys"].d
    r = c.res.t
    val = z3.Select(c.h("value"), r)
    up = upper(keys["name"].t)
    exempt = z3.Or(up == z3.StringVal("API"), up == z3.StringVal("UWI"))
    raw = z3.Or(val == obj_of_str(keys["value"].t), val == obj_of_str(keys["descr"].t), val == obj_of_str(z3.StringVal("")))
    return [("original-mnemonic-is-the-parsed-name", z3.Select(c.h("original_mnemonic"), r) == keys["name"].t),
            ("new-object", z3.Not(z3.Select(c.old("$alloc"), r))),
            ("API-and-UWI-values-kept-verbatim", z3.Implies(exempt, raw)),
            ("other-values-go-through-num", z3.Implies(z3.Not(exempt), z3.Or(
                val == num_result(keys["value"].t), val == num_result(keys["descr"].t), val == num_result(z3.StringVal("")))))]


ITEM_FRAME = {f: (lambda c, r: z3.Not(z3.Select(c.old("$alloc"), r))) for f in LI.HI_FIELDS}
ITEM_FRAME["$alloc"] = None
ITEM_FRAME["$cls"] = None

META_C = REG.add(Contract(
    "reader.SectionParser.metadata", params={"self": REF("SectionParser"), "keys": KEYS()},
    ensures=metadata_post, returns=LI.HI, modifies=dict(ITEM_FRAME), properties=("C08", "C19", "C03", "C04"), noraise=True, reveal=("num",)))

PARAMS_C = REG.add(Contract(
    "reader.SectionParser.params", params={"self": REF("SectionParser"), "keys": KEYS()},
    ensures=lambda c: [("original-mnemonic-is-the-parsed-name", z3.Select(c.h("original_mnemonic"), c.res.t) == c.a["keys"].d["name"].t),
                       ("value-always-through-num", z3.Select(c.h("value"), c.res.t) == num_result(c.a["keys"].d["value"].t)),
                       ("new-object", z3.Not(z3.Select(c.old("$alloc"), c.res.t)))],
    returns=LI.HI, modifies=dict(ITEM_FRAME), properties=("C08", "C19", "C03", "C04"), noraise=True))

CURVES_C = REG.add(Contract(
    "reader.SectionParser.curves", params={"self": REF("SectionParser"), "keys": KEYS()},
    ensures=lambda c: [("original-mnemonic-is-the-parsed-name", z3.Select(c.h("original_mnemonic"), c.res.t) == c.a["keys"].d["name"].t),
                       ("API-code-never-converted", z3.Select(c.h("value"), c.res.t) == obj_of_str(c.a["keys"].d["value"].t)),
                       ("new-object", z3.Not(z3.Select(c.old("$alloc"), c.res.t)))],
    returns=REF("CurveItem"), modifies=dict(ITEM_FRAME), properties=("C08", "C19"), may_raise=["Any"]))
CURVES_C.note = "np.asarray([]) inside CurveItem.__init__ is an opaque library call"
