"""reader.configure_metadata_patterns: the pattern list handed to read_header_line is a
pure function of (line, section name) - no process-wide state is written, so a junk
line (C19) or an earlier read (C10) cannot influence how a later line is parsed - and
the time-colon pattern is tried (first) exactly in ~Parameter (C04)."""
import z3
from pyvc.values import *
from pyvc.spec import Contract
from .common import *


def cmp_init(c, st):
    st.ghost["$mutated"] = z3.K(PyObj, z3.BoolVal(False))
    st.ghost["$mutated_key"] = z3.Const("mut_key0", z3.ArraySort(PyObj, PyObj))
    st.ghost["$mutated_val"] = z3.Const("mut_val0", z3.ArraySort(PyObj, PyObj))


def cmp_post(c):
    o = z3.Const("any_obj", PyObj)
    res = c.res
    n = res.n if isinstance(res, VList) else (z3.IntVal(len(res.items)) if isinstance(res, VCList) else None)
    out = [("no-object-outside-the-call-is-updated (no cache, no module-level state)",
            z3.ForAll([o], z3.Not(z3.Select(c.g("$mutated"), o))))]
    if n is None:
        out.append(("result-is-a-list-built-by-this-call", z3.BoolVal(False)))
    else:
        out.append(("two-patterns-in-~Parameter-(time-colon-first)-one-elsewhere",
                    n == z3.If(c.a["section_name"].t == z3.StringVal("Parameter"), 2, 1)))
    return out


CMP = REG.add(Contract(
    "reader.configure_metadata_patterns", params={"line": STR, "section_name": STR},
    ensures=cmp_post, ghost_init=cmp_init, modifies={}, abstract_exprs=True,
    local_types={"patterns": LIST(STR)}, noraise=True,
    properties=("C19", "C10", "C04")))
CMP.note = "str.find/rfind positions and re.search are opaque; the function only builds strings from literals"
