"""reader.configure_metadata_patterns: the pattern list handed to read_header_line is a
pure function of (line, section name) - no process-wide state is written, so a junk
line (C19) or an earlier read (C10) cannot influence how a later line is parsed - and
the time-colon pattern is tried (first) exactly in ~Parameter (C04)."""
import z3
from pyvc.values import *
from pyvc.spec import Contract
from .common import *


def cmp_init(c, st):
    st.ghost["$mutated"] = z3.K(PyObj, z3.BoolVal(False))
    st.ghost["$mutated_key"] = z3.Const("mut_key0", z3.ArraySort(PyObj, PyObj))
    st.ghost["$mutated_val"] = z3.Const("mut_val0", z3.ArraySort(PyObj, PyObj))


def cmp_post(c):
    o = z3.Const("any_obj", PyObj)
    res = c.res
    n = res.n if isinstance(res, VList) else (z3.IntVal(len(res.items)) if isinstance(res, VCList) else None)
    out = [("no-object-outside-the-call-is-updated (no cache, no module-level state)",
            z3.ForAll([o], z3.Not(z3.Select(c.g("$mutated"), o))))]
    if n is None:
        out.append(("result-is-a-list-built-by-this-call", z3.BoolVal(False)))
    else:
        out.append(("two-patterns-in-~Parameter-(time-colon-first)-one-elsewhere",
                    n == z3.If(c.a["section_name"].t == z3.StringVal("Parameter"), 2, 1)))
    return out


CMP = REG.add(Contract(
    "reader.configure_metadata_patterns", params={"line": STR, "section_name": STR},
    ensures=cmp_post, ghost_init=cmp_init, modifies={}, abstract_exprs=True,
    local_types={"patterns": LIST(STR)}, noraise=True, returns=LIST(STR),
    properties=("C19", "C10", "C04")))
CMP.note = "str.find/rfind positions and re.search are opaque; the function only builds strings from literals"


# ---------------------------------------------------------------- read_header_line: no hidden state either
def rhl_init(c, st):
    cmp_init(c, st)
    st.ghost["$fresh"] = z3.K(PyObj, z3.BoolVal(False))


def only_own_objects(c):
    o = z3.Const("any_obj", PyObj)
    return [("only-objects-created-in-this-call-are-updated (the result dict is new on every call; no module-level table is written)",
             z3.ForAll([o], z3.Implies(z3.Select(c.g("$mutated"), o), z3.Select(c.g("$fresh"), o))))]


REG.add(Contract("lib:re.match", params={"pattern": "any", "string": "any"}, returns=OBJ, assumed=True, may_raise=["Any"],
                 note="re.match returns a match object or None; it updates nothing visible", properties=("C19", "C10", "C04")))

def rhl_loop1(c):
    d = c.st.env.get("d")
    own = [("the-dict-being-filled-was-created-in-this-call", z3.Select(c.g("$fresh"), d.t))] if isinstance(d, VObj) else \
          [("the-dict-being-filled-was-created-in-this-call", z3.BoolVal(False))]
    return own + only_own_objects(c)


RHL = REG.add(Contract(
    "reader.read_header_line", params={"line": STR, "pattern": NONE, "section_name": STR},
    ensures=only_own_objects, loops={0: only_own_objects, 1: rhl_loop1},
    loop_ghost={0: ["$mutated", "$mutated_key", "$mutated_val", "$fresh"], 1: ["$mutated", "$mutated_key", "$mutated_val", "$fresh"]},
    ghost_init=rhl_init, modifies={}, abstract_exprs=True, opaque_iterables=True, may_raise=["Any"],
    local_types={"patterns": LIST(STR)}, loop_types={"m": OBJ, "pattern": STR},
    properties=("C19", "C10", "C04")))
RHL.note = ("re.match, m.groupdict() and the iteration over its items are opaque; what is proved is WHICH objects the function updates: "
            "only the dict it builds itself")
