"""K1: reader.find_sections_in_file  (DESIGN 5, shared contracts)."""
import z3
from pyvc.values import *
from pyvc.spec import Contract
from .common import *

j, k = z3.Int("j"), z3.Int("k")


def sel(lst, col, idx):
    return z3.Select(lst.cols[col], idx)


def title_of(kk):
    return strip_nl(strip(z3.Select(LINES, kk)))


def k1_while_inv(c):
    starts, ends = c.v("starts"), c.v("ends")
    line_no, line, file_pos = c.v("line_no").t, c.v("line").t, c.v("file_pos").t
    cur = cursor(c)
    ns, ne = starts.n, ends.n
    return [
        ("line_no-range", z3.And(0 <= line_no, line_no <= NLINES)),
        ("line-is-current", z3.Implies(line_no < NLINES, z3.And(line == z3.Select(LINES, line_no), cur == line_no + 1))),
        ("eof", z3.Implies(line_no >= NLINES, z3.And(line == z3.StringVal(""), cur == NLINES))),
        ("file_pos", file_pos == cookie(line_no)),
        ("starts-len", ns == rank(line_no)),
        ("starts-are-titles", forall(j, z3.Implies(z3.And(0 <= j, j < ns), z3.And(
            0 <= sel(starts, 1, j), sel(starts, 1, j) < line_no, T(sel(starts, 1, j)), rank(sel(starts, 1, j)) == j)))),
        ("starts-val", forall(j, z3.Implies(z3.And(0 <= j, j < ns), z3.And(
            sel(starts, 0, j) == cookie(sel(starts, 1, j)), sel(starts, 2, j) == title_of(sel(starts, 1, j)))))),
        ("titles-recorded", forall(k, z3.Implies(z3.And(0 <= k, k < line_no, T(k)), z3.And(
            0 <= rank(k), rank(k) < ns, sel(starts, 1, rank(k)) == k)))),
        ("ends-len", ne == z3.If(ns >= 1, ns - 1, 0)),
        ("ends-val", forall(j, z3.Implies(z3.And(0 <= j, j < ne), sel(ends, 0, j) == sel(starts, 1, j + 1) - 1))),
        ("starts-strictly-increasing", forall([j, k], z3.Implies(z3.And(0 <= j, j < k, k < ns), sel(starts, 1, j) < sel(starts, 1, k)))),
    ]


def k1_for_inv(c):
    starts, ends, sp = c.v("starts"), c.v("ends"), c.v("section_positions")
    i = c.i
    return [
        ("sp-len", sp.n == i),
        ("sp-val", forall(j, z3.Implies(z3.And(0 <= j, j < i), z3.And(
            sel(sp, 0, j) == sel(starts, 0, j), sel(sp, 1, j) == sel(starts, 1, j),
            sel(sp, 2, j) == sel(ends, 0, j), sel(sp, 3, j) == sel(starts, 2, j))))),
    ]


def sections_post(res):
    """The section table as the callers may rely on it (also used as the
    callee contract by LASFile.read's blocks)."""
    n = res.n
    return [
        ("count=number-of-title-lines", n == rank(NLINES)),
        ("entries-are-titles-in-order", forall(j, z3.Implies(z3.And(0 <= j, j < n), z3.And(
            0 <= sel(res, 1, j), sel(res, 1, j) < NLINES, T(sel(res, 1, j)), rank(sel(res, 1, j)) == j)))),
        ("offset-and-title", forall(j, z3.Implies(z3.And(0 <= j, j < n), z3.And(
            sel(res, 0, j) == cookie(sel(res, 1, j)), sel(res, 3, j) == title_of(sel(res, 1, j)))))),
        ("every-title-recorded", forall(k, z3.Implies(z3.And(0 <= k, k < NLINES, T(k)), z3.And(
            0 <= rank(k), rank(k) < n, sel(res, 1, rank(k)) == k)))),
        ("inner-end-inclusive", forall(j, z3.Implies(z3.And(0 <= j, j < n - 1),
                                                       sel(res, 2, j) == sel(res, 1, j + 1) - 1))),
        ("last-end", z3.Implies(n >= 1, sel(res, 2, n - 1) == LAST_END())),
        ("titles-strictly-increasing", forall([j, k], z3.Implies(z3.And(0 <= j, j < k, k < n), sel(res, 1, j) < sel(res, 1, k)))),
        ("every-body-lies-in-the-file", forall(j, z3.Implies(z3.And(0 <= j, j < n), z3.And(
            sel(res, 1, j) <= sel(res, 2, j), sel(res, 2, j) < NLINES)))),
        ("no-title-line-inside-a-body", forall([j, k], z3.Implies(
            z3.And(0 <= j, j < n, sel(res, 1, j) < k, k <= sel(res, 2, j)), z3.Not(T(k))))),
        ("every-body-ends-at-the-next-title-or-at-the-end-of-the-file", forall(j, z3.Implies(z3.And(0 <= j, j < n), z3.Or(
            sel(res, 2, j) == NLINES - 1, T(sel(res, 2, j) + 1))))),
    ]


def LAST_END():
    # every section end is inclusive: the last section ends at the last line
    return NLINES - 1


SECTION_T = TUPLE(INT, INT, INT, STR)

K1 = REG.add(Contract(
    "reader.find_sections_in_file",
    params={"file_obj": FILE},
    requires=lambda c: [("cursor-at-start", cursor(c) == 0)],
    ensures=lambda c: sections_post(c.res),
    returns=LIST(SECTION_T),
    loops={0: k1_while_inv, 1: k1_for_inv},
    loop_anchor={1: "enumerate(starts)"},
    ghost_init=file_init(),
    properties=("C02", "C05", "C07", "C09", "C19"),
    reveal=("io",),
))
K1.loop_fields = ["$cursor"]
K1.local_types = {"starts": LIST(TUPLE(INT, INT, STR)), "ends": LIST(INT), "section_positions": LIST(SECTION_T)}
