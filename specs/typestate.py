"""C20: every file lasio opens itself is closed on every exit, normal or
exceptional, where every call / attribute access on an opaque object / I/O
operation may raise (contracts with anyraise=True, DESIGN 5/C20)."""
import ast
import copy
import z3
from pyvc.values import *
from pyvc.spec import Contract
from .common import *

REG.classes.setdefault("LASFile", {"module": "las", "bases": [], "closed": False, "fields": {}})
REG.classes["LASFile"]["fields"].setdefault("encoding", OBJ)


def opened_here(c):
    return list(c.st.ghost.get("$opened", []))


def all_closed(c, except_=None):
    hs = opened_here(c)
    op = c.h("$open")
    cl = [z3.Or(h == except_, z3.Not(z3.Select(op, h))) if except_ is not None else z3.Not(z3.Select(op, h)) for h in hs]
    return z3.And(cl + [z3.BoolVal(True)])


def open_post_hook(c, st):
    h = c.res.t
    st.assume(z3.Not(z3.Select(c.old("$alloc"), h)))
    st.heap["$alloc"] = z3.Store(c.eng.heap(st, "$alloc"), h, z3.BoolVal(True))
    st.heap["$open"] = z3.Store(c.eng.heap(st, "$open"), h, z3.BoolVal(True))
    st.ghost["$opened"] = list(st.ghost.get("$opened", [])) + [h]


for _nm in ("open", "io.open"):
    REG.add(Contract(
        "lib:" + _nm, params={"file": "any", "mode": "any"}, returns=FILE, assumed=True,
        post_hook=open_post_hook,
        note="T-io: open()/io.open() return a fresh open handle or raise (then no handle exists)",
        properties=("C20",)))


def caller_handle_untouched(c, name):
    h = c.a[name].t
    return z3.Select(c.h("$open"), h) == z3.Select(c.old("$open"), h)


def ts_init(c, st):
    st.ghost["$opened"] = []


def fresh_only(c, r):
    """a function may change the open-state only of handles it created itself"""
    return z3.Not(z3.Select(c.old("$alloc"), r))


COMMON = dict(anyraise=True, abstract_exprs=True, may_raise=["Any"], ghost_init=ts_init, modifies={"$open": fresh_only},
              properties=("C20",))

# ---- callees' contracts as used by their callers
REG.add(Contract("writer.write", params={"las": "any", "file_object": "any"}, assumed=True,
                 note="writer.write may raise anything; it never closes or opens files (checked: no open()/close() in writer.py)",
                 properties=("C20",)))


def closes_everything(c):
    return [("every-handle-opened-here-is-closed", all_closed(c))]


WRITE_PATH = REG.add(Contract(
    "las.LASFile.write", case="path", params={"self": REF("LASFile"), "file_ref": STR, "kwargs": "dict"},
    ensures=closes_everything, exc_ensures=closes_everything, **COMMON))

WRITE_FILE = REG.add(Contract(
    "las.LASFile.write", case="caller-file", params={"self": REF("LASFile"), "file_ref": FILE, "kwargs": "dict"},
    requires=lambda c: [("caller-handle-open", z3.And(z3.Select(c.h("$open"), c.a["file_ref"].t),
                                                       z3.Select(c.h("$alloc"), c.a["file_ref"].t)))],
    ensures=lambda c: closes_everything(c) + [("caller-supplied-file-left-open", caller_handle_untouched(c, "file_ref"))],
    exc_ensures=lambda c: closes_everything(c) + [("caller-supplied-file-left-open", caller_handle_untouched(c, "file_ref"))],
    **COMMON))


def old_handles_untouched(c):
    r = z3.Int("r_h")
    return z3.ForAll([r], z3.Implies(z3.Select(c.old("$alloc"), r), z3.Select(c.h("$open"), r) == z3.Select(c.old("$open"), r)))


def open_unchanged_inv(c):
    return [("open-state-unchanged-by-the-loop", c.h("$open") == c.x.get("open_at_loop", c.h("$open")))]


TOCSV_PATH = REG.add(Contract(
    "las.LASFile.to_csv", case="path",
    params={"self": REF("LASFile"), "file_ref": STR, "mnemonics": OBJ, "units": OBJ, "units_loc": OBJ, "kwargs": "dict"},
    ensures=closes_everything, exc_ensures=closes_everything,
    loops={0: lambda c: [("handles-of-the-caller-untouched", old_handles_untouched(c))]}, **COMMON))

TOCSV_FILE = REG.add(Contract(
    "las.LASFile.to_csv", case="caller-file",
    params={"self": REF("LASFile"), "file_ref": FILE, "mnemonics": OBJ, "units": OBJ, "units_loc": OBJ, "kwargs": "dict"},
    requires=lambda c: [("caller-handle-open", z3.And(z3.Select(c.h("$open"), c.a["file_ref"].t),
                                                       z3.Select(c.h("$alloc"), c.a["file_ref"].t)))],
    ensures=lambda c: closes_everything(c) + [("caller-supplied-file-left-open", caller_handle_untouched(c, "file_ref"))],
    exc_ensures=lambda c: closes_everything(c) + [("caller-supplied-file-left-open", caller_handle_untouched(c, "file_ref"))],
    requires_extra=None,
    loops={0: lambda c: [("handles-of-the-caller-untouched", old_handles_untouched(c))]}, **COMMON))

# ---- reader side
ADHOC = REG.add(Contract(
    "reader.adhoc_test_encoding", params={"filename": OBJ},
    ensures=closes_everything, exc_ensures=closes_everything, returns=OBJ, **COMMON))

REG.add(Contract("reader.get_encoding", params={"auto": "any", "raw": "any"}, returns=OBJ, assumed=True,
                 note="get_encoding opens no file (checked: no open() in its body)", properties=("C20",)))
REG.add(Contract("reader.check_for_path_obj", params={"file_ref": "any"}, returns=OBJ, assumed=True,
                 note="check_for_path_obj opens no file", properties=("C20",)))


def owc_post(c):
    return [("exactly-the-returned-handle-is-open", all_closed(c, except_=c.res.items[0].t)),
            ("returned-handle-is-open", z3.Select(c.h("$open"), c.res.items[0].t))]


OWC = REG.add(Contract(
    "reader.open_with_codecs",
    params={"filename": OBJ, "encoding": OBJ, "encoding_errors": OBJ, "autodetect_encoding": OBJ, "autodetect_encoding_chars": OBJ},
    ensures=owc_post, exc_ensures=closes_everything,
    returns=TUPLE(FILE, OBJ), **COMMON))


def owc_result_hook(c, st):
    # as a callee: the returned handle is a fresh open handle owned by the caller
    h = c.res.items[0].t
    st.assume(z3.Not(z3.Select(c.old("$alloc"), h)))
    st.heap["$alloc"] = z3.Store(c.eng.heap(st, "$alloc"), h, z3.BoolVal(True))
    st.heap["$open"] = z3.Store(c.eng.heap(st, "$open"), h, z3.BoolVal(True))
    st.ghost["$opened"] = list(st.ghost.get("$opened", [])) + [h]


OWC.post_hook = owc_result_hook
ADHOC.post_hook = None


# ---- reader.open_file and the try/finally skeleton of LASFile.read (block R9)
def open_file_post(c):
    return [("at-most-the-returned-handle-is-open", all_closed(c, except_=c.res.items[0].t))]


OPEN_FILE_PATH = REG.add(Contract(
    "reader.open_file", case="str", params={"file_ref": STR, "encoding_kwargs": "dict"},
    ensures=open_file_post, exc_ensures=closes_everything, returns=TUPLE(FILE, OBJ),
    post_hook=owc_result_hook, **COMMON))
OPEN_FILE_PATH.note = ("as a callee the result is modelled as a fresh open handle (the filename branch); the StringIO/URL branches "
                       "return objects that hold no OS handle")


def verify_open_file(E, c):
    """open_file returns either the handle from open_with_codecs or an in-memory object: verify the real body with the
    result typed as a tuple whose first component may be an opaque object"""
    c2 = copy.copy(c)
    c2.ensures = lambda cc: [("every-handle-opened-here-is-closed-or-returned",
                              z3.And([z3.Or(_is_result(cc, h), z3.Not(z3.Select(cc.h("$open"), h))) for h in opened_here(cc)] + [z3.BoolVal(True)]))]
    return E.verify(c2)


def _is_result(cc, h):
    r = cc.res
    if isinstance(r, VTuple) and isinstance(r.items[0], VFile):
        return r.items[0].t == h
    return z3.BoolVal(False)


OPEN_FILE_PATH.verify_with = verify_open_file


def read_skeleton(E):
    """Block R9, extracted mechanically on every run: the try/finally of LASFile.read
    with everything after the open_file() statement replaced by one opaque call
    that may raise.  Side conditions checked on the dropped statements: they never
    rebind `file_obj` and never store it into an attribute."""
    fn = E.funcs["las.LASFile.read"]
    tries = [n for n in fn.body if isinstance(n, ast.Try)]
    if len(tries) != 1:
        raise OutOfSubset("R9: expected exactly one try statement in LASFile.read")
    t = tries[0]
    first = t.body[0]
    seg = ast.get_source_segment(E.src["las"], first) or ""
    if "reader.open_file(" not in seg or not seg.lstrip().startswith("file_obj"):
        raise OutOfSubset("R9: first statement of the try is not the open_file() call: %r" % seg[:80])
    for st in t.body[1:]:
        for x in ast.walk(st):
            if isinstance(x, ast.Name) and x.id == "file_obj" and isinstance(x.ctx, ast.Store):
                raise OutOfSubset("R9: file_obj is rebound at line %d" % x.lineno)
            if isinstance(x, ast.Assign) and any(isinstance(tg, ast.Attribute) for tg in x.targets):
                if any(isinstance(y, ast.Name) and y.id == "file_obj" for y in ast.walk(x.value)):
                    raise OutOfSubset("R9: file_obj stored into an attribute at line %d" % x.lineno)
    pre = [n for n in fn.body if n.lineno < t.lineno and isinstance(n, ast.Assign)
           and any(isinstance(tg, ast.Name) and tg.id == "file_obj" for tg in n.targets)]
    opaque = ast.parse("__verif_rest_of_read__()").body[0]
    ast.copy_location(opaque, t.body[1] if len(t.body) > 1 else first)
    for x in ast.walk(opaque):
        ast.copy_location(x, opaque)
    t2 = copy.copy(t)
    t2.body = [first, opaque]
    return pre + [t2], fn


REG.add(Contract("lib:__verif_rest_of_read__", params={}, assumed=True,
                 note="R9: the statements of LASFile.read between open_file() and the finally clause, abstracted: may raise anything; "
                      "mechanically checked not to rebind file_obj nor to store it in an attribute", properties=("C20",)))


def verify_read_skeleton(E, c):
    body, fn = read_skeleton(E)
    return E.verify(c, fnode=fn, body=body, module="las")


R9 = REG.add(Contract(
    "las.LASFile.read#R9", params={"self": REF("LASFile"), "file_ref": STR, "kwargs": "dict", "ignore_header_errors": OBJ,
                                   "ignore_comments": OBJ, "ignore_data_comments": OBJ, "mnemonic_case": OBJ, "ignore_data": OBJ,
                                   "engine": OBJ, "use_normal_engine_for_wrapped": OBJ, "read_policy": OBJ, "null_policy": OBJ,
                                   "accept_regexp_sub_recommendations": OBJ, "index_unit": OBJ, "dtypes": OBJ},
    ensures=closes_everything, exc_ensures=closes_everything,
    verify_with=verify_read_skeleton, **dict(COMMON, modifies={"$open": fresh_only, "encoding": None})))
R9.handle_names = ("file_obj",)


# ---- C10: the string channel of open_file hands the reader exactly the caller's text
sio = z3.Function("py_StringIO", PyObj, PyObj)                       # StringIO(text)
sio_kw = z3.Function("py_StringIO_newline", PyObj, PyObj, PyObj)     # StringIO(text, newline=...)

REG.add(Contract("reader.check_for_path_obj", case="str", params={"file_ref": STR}, returns=lambda c: c.a["file_ref"], assumed=True,
                 noraise=True, only_on_request=True,
                 note="for a str argument check_for_path_obj returns the argument itself (isinstance(file_ref, Path) is false)",
                 properties=("C10",)))
REG.add(Contract("lib:StringIO", params={"initial_value": "any", "newline": "any"}, assumed=True,
                 returns=lambda c: VObj(sio_kw(c.eng.to_obj(c.a["initial_value"]), c.eng.to_obj(c.a["newline"])) if "newline" in c.a
                                        else sio(c.eng.to_obj(c.a["initial_value"]))),
                 note="io.StringIO(text[, newline]) is an in-memory text stream over exactly that text; it holds no OS handle",
                 properties=("C10", "C20")))


def open_file_text_post(c):
    r0 = c.res.items[0]
    if isinstance(r0, VFile):
        return [("a-single-line-string-is-a-file-name (handle from open_with_codecs)", z3.BoolVal(True))]
    x = z3.Const("any_text", PyObj)
    return [("a-multi-line-string-is-read-as-it-is: the stream is StringIO(the caller's text)",
             z3.Or(c.eng.to_obj(r0) == sio(obj_of_str(c.a["file_ref"].t)),
                   z3.Exists([x], c.eng.to_obj(r0) == sio_kw(x, none_obj))))]


OPEN_FILE_TEXT = REG.add(Contract(
    "reader.open_file", case="text", params={"file_ref": STR, "encoding_kwargs": "dict"},
    ensures=open_file_text_post, returns=TUPLE(OBJ, OBJ), use={"reader.check_for_path_obj": "str"}, only_on_request=True,
    **dict(COMMON, properties=("C10",))))
OPEN_FILE_TEXT.note = ("str.splitlines, URL_REGEXP.match and the URL download are opaque; the URL branch is recognised by its StringIO(..., newline=None) call")
