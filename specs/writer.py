"""Contracts for lasio/writer.py (C03, C11, C16): value normalisation, section
column widths, line formatter (padding between unit and value is >= 1 blank)."""
import z3
from pyvc.values import *
from pyvc.spec import Contract
from .common import *
from . import las_items as LI

p, q = z3.Int("p"), z3.Int("q")
py_eq = z3.Function("py_eq", PyObj, PyObj, B)
ZERO = obj_of_int(z3.IntVal(0))
EMPTY = obj_of_str(z3.StringVal(""))

_o = z3.Const("ax_o", PyObj)
_i, _j, _s, _t = z3.Int("ax_i"), z3.Int("ax_j2"), z3.String("ax_s1"), z3.String("ax_s2")
REG.axioms += [
    # T-enc: truthiness / equality / str() of ints and strs viewed as objects
    ("T-enc:truthy-int", z3.ForAll([_i], truthy(obj_of_int(_i)) == (_i != 0), patterns=[obj_of_int(_i)]), "obj"),
    ("T-enc:truthy-str", z3.ForAll([_s], truthy(obj_of_str(_s)) == (z3.Length(_s) > 0), patterns=[obj_of_str(_s)]), "obj"),
    ("T-enc:none-int", z3.ForAll([_i], z3.Not(is_none(obj_of_int(_i))), patterns=[obj_of_int(_i)]), "obj"),
    ("T-enc:none-str", z3.ForAll([_s], z3.Not(is_none(obj_of_str(_s))), patterns=[obj_of_str(_s)]), "obj"),
    ("T-enc:eq-int-int", z3.ForAll([_i, _j], py_eq(obj_of_int(_i), obj_of_int(_j)) == (_i == _j),
                                   patterns=[py_eq(obj_of_int(_i), obj_of_int(_j))]), "obj"),
    ("T-enc:eq-str-int", z3.ForAll([_s, _j], z3.Not(py_eq(obj_of_str(_s), obj_of_int(_j))),
                                   patterns=[py_eq(obj_of_str(_s), obj_of_int(_j))]), "obj"),
    ("T-enc:none-is-falsy", z3.And(is_none(none_obj), z3.Not(truthy(none_obj))), "obj"),
    ("T-enc:none-props", z3.ForAll([_o], z3.Implies(is_none(_o), z3.And(z3.Not(truthy(_o)), z3.Not(py_eq(_o, ZERO)))),
                                   patterns=[is_none(_o)]), "obj"),
    ("T-enc:str-of-int-0", str_of(ZERO) == z3.StringVal("0"), "obj"),
    ("T-enc:str-of-str", z3.ForAll([_s], str_of(obj_of_str(_s)) == _s, patterns=[obj_of_str(_s)]), "obj"),
]


def std(value, unit):
    """standardize_value as a term"""
    return z3.If(z3.And(truthy(unit), z3.Not(truthy(value)), z3.Not(py_eq(value, ZERO))), ZERO,
                 z3.If(is_none(value), EMPTY, value))


STD = REG.add(Contract(
    "writer.standardize_value", params={"value": OBJ, "unit": OBJ},
    ensures=lambda c: [("result", c.eng.to_obj(c.res) == std(c.a["value"].t, c.a["unit"].t))],
    returns=OBJ, properties=("C03", "C11", "C16", "C12"), noraise=True, merge=False))

# ---- order function abstraction used when a function receives `order_func` as a parameter
ordsel = z3.Function("order_is_value_first", S, B)
VALUE_FIRST, DESCR_FIRST = z3.StringVal("value:descr"), z3.StringVal("descr:value")
REG.add(Contract(
    "lib:order_func", params={"mnemonic": STR}, assumed=True, noraise=True,
    returns=lambda c: VStr(z3.If(ordsel(c.a["mnemonic"].t), VALUE_FIRST, DESCR_FIRST)),
    note="order_func is the closure returned by get_section_order_function (verified on the real table under C12): "
         "a function of the mnemonic returning 'value:descr' or 'descr:value'",
    properties=("C03", "C11", "C16")))

REG.add(Contract("las_items.HeaderItem.__getitem__", params={"self": LI.HI, "key": STR}, inline=True))


def rhs_obj(c_h, r, orig):
    """the field written right of the unit: value or descr, by the order of the ORIGINAL mnemonic"""
    return z3.If(ordsel(z3.Select(orig, r)), z3.Select(c_h("value"), r), z3.Select(c_h("descr"), r))


def mid_width(c_h, r, orig):
    return z3.Length(str_of(z3.Select(c_h("unit"), r))) + 1 + z3.Length(str_of(rhs_obj(c_h, r, orig)))


def gsw_inv(c):
    v = LI.View(c, selfname="items")
    mw = c.v("middle_widths")
    i = c.i
    return [("one-width-per-item", mw.n == i),
            ("width-formula", forall(q, z3.Implies(z3.And(0 <= q, q < i),
                                                   z3.Select(mw.cols[0], q) == mid_width(c.h, v.item(q), v.orig))))]


def gsw_post(c):
    v = LI.View(c, selfname="items")
    if not isinstance(c.res.d["left_width"], VInt):
        return [("widths-are-set-for-a-non-empty-section", z3.BoolVal(False))]
    L, Mw = c.res.d["left_width"].t, c.res.d["middle_width"].t
    return [
        ("left>=every-original-mnemonic", forall(p, z3.Implies(v.inrange(p), L >= z3.Length(z3.Select(v.orig, v.item(p)))))),
        ("left-attained", z3.Exists([p], z3.And(v.inrange(p), L == z3.Length(z3.Select(v.orig, v.item(p)))))),
        ("middle>=unit+1+rhs-for-every-item", forall(p, z3.Implies(v.inrange(p), Mw >= mid_width(c.h, v.item(p), v.orig)))),
        ("middle-attained", z3.Exists([p], z3.And(v.inrange(p), Mw == mid_width(c.h, v.item(p), v.orig)))),
    ]


GSW = REG.add(Contract(
    "writer.get_section_widths", case="non-empty",
    params={"section_name": STR, "items": LI.SI, "version": OBJ, "order_func": VExt("lib:order_func")},
    requires=lambda c: LI.shape(c, selfname="items") + [("non-empty", LI.View(c, selfname="items").n > 0)],
    ensures=gsw_post,
    loops={0: gsw_inv}, local_types={"middle_widths": LIST(INT)},
    returns=lambda c: VDict({"left_width": VInt(z3.Int(fresh_name("left_width"))), "middle_width": VInt(z3.Int(fresh_name("middle_width")))}),
    properties=("C03", "C11", "C16", "C12"), noraise=True))


# ---------------------------------------------------------------- LASFile model (sections as fields)
REG.classes.setdefault("LASFile", {"module": "las", "bases": [], "closed": False, "fields": {}})
REG.classes["LASFile"]["fields"].update({
    "sections": ("rec", {"Version": "$sec_Version", "Well": "$sec_Well", "Curves": "$sec_Curves", "Parameter": "$sec_Parameter",
                         "Other": "$sec_Other", "*": "$sec_custom", "*s": "$sec_text"}),
    "$sec_custom": ("strmap",), "$sec_Other": STR, "$sec_text": ("strmap_s",),
    "$sec_Version": LI.SI, "$sec_Well": LI.SI, "$sec_Curves": LI.SI, "$sec_Parameter": LI.SI,
})
for _nm in ("version", "well", "curves", "params"):
    REG.add(Contract("las.LASFile." + _nm, params={"self": REF("LASFile")}, inline=True))
REG.add(Contract("las_items.SectionItems.values", params={"self": LI.SI}, inline=True))

REG.add(Contract(
    "writer.get_section_order_function", params={"section": STR, "version": OBJ},
    returns=lambda c: VExt("lib:order_func"), assumed=True, noraise=True,
    note="returns the order closure; its behaviour on the real table is verified under C12",
    properties=("C03", "C11", "C16")))
REG.add(Contract("writer.get_formatter_function", params={"order": STR, "left_width": INT, "middle_width": INT}, inline=True))

# ---------------------------------------------------------------- W3: the header-section loops of writer.write
from pyvc import blocks as BL


def sec_view(c, field):
    """View of las.<section> in the current heap"""
    class _V(LI.View):
        def __init__(s):
            hh = c.h
            s.s = z3.Select(hh(field), c.a["las"].t)
            s.n = z3.simplify(z3.Select(hh("$len"), s.s))
            s.A = z3.simplify(z3.Select(hh("$items"), s.s))
            s.orig, s.sess = hh("original_mnemonic"), hh("mnemonic")
            s.tr = z3.Select(hh("mnemonic_transforms"), s.s)
            s.alloc = hh("$alloc")
            s.hh = hh
    return _V()


def w3_pre(field):
    def pre(c):
        v = sec_view(c, field)
        return [("len>=0", v.n >= 0), ("non-empty", v.n > 0),
                ("section-allocated", z3.Select(v.alloc, v.s)),
                ("items-allocated", forall(p, z3.Implies(v.inrange(p), z3.And(z3.Select(v.alloc, v.item(p)), v.item(p) != v.s)))),
                ("distinct-objects", LI.distinct_objects(v))]
    return pre


def values_standardised(c, v, upto):
    """items [0, upto) hold std(old value, unit); the rest are untouched"""
    val, val0, unit = c.h("value"), c.old("value"), c.h("unit")
    return [("standardised-so-far", forall(q, z3.Implies(z3.And(0 <= q, q < upto),
                                                         z3.Select(val, v.item(q)) == std(z3.Select(val0, v.item(q)), z3.Select(unit, v.item(q)))))),
            ("rest-untouched", forall(p, z3.Implies(
                z3.Not(z3.Exists([q], z3.And(0 <= q, q < upto, v.item(q) == p))), z3.Select(val, p) == z3.Select(val0, p))))]


def heap_static(c, fields):
    return [("unchanged:" + f, c.h(f) == c.old(f)) for f in fields]


STATIC = ["$len", "$items", "original_mnemonic", "mnemonic", "unit", "descr", "mnemonic_transforms", "$sec_Well", "$sec_Parameter", "$sec_Curves"]


def w3_loop_std(field):
    def inv(c):
        v = sec_view(c, field)
        return values_standardised(c, v, c.i) + heap_static(c, STATIC)
    return inv


def w3_loop_fmt(field, with_std):
    def inv(c):
        v = sec_view(c, field)
        out = heap_static(c, STATIC)
        if with_std:
            out += values_standardised(c, v, v.n)
        else:
            out += heap_static(c, ["value"])
        return out
    return inv


def only_section_items(field):
    def region(c, r):
        v = sec_view(c, field)
        return z3.Exists([p], z3.And(v.inrange(p), v.item(p) == r))
    return region


def w3_line_hook(c, st):
    """ghost obligation at `lines.append(line)`: the header line starts with the item's ORIGINAL mnemonic (what the file said,
    not the session name with its :n suffix), followed - after the padding - by the period"""
    line, item = st.env.get("line"), st.env.get("header_item")
    if not isinstance(line, VStr) or not isinstance(item, VRef):
        c.eng.goal(st, "header-line-starts-with-the-original-mnemonic", z3.BoolVal(False), "safety", None)
        return
    orig = z3.Select(c.eng.heap(st, "original_mnemonic"), item.t)
    c.eng.goal(st, "header-line-starts-with-the-original-mnemonic", z3.PrefixOf(orig, line.t), "safety", None,
               note="duplicates and blanks are written under the mnemonic the file gave them")
    # full layout (C03/C11/C12): the line is exactly
    #   ljust(original mnemonic, left) "." str(unit) blanks(middle - len(unit) - len(rhs)) str(rhs) " : " str(other)
    # where rhs/other are value/descr in the order the table gives for the ORIGINAL mnemonic (and for nothing else: not the
    # unit, not the section), and left/middle are the widths get_section_widths returned for this section
    sw = st.env.get("section_widths")
    if not (isinstance(sw, VDict) and isinstance(sw.d.get("left_width"), VInt) and isinstance(sw.d.get("middle_width"), VInt)):
        c.eng.goal(st, "header-line-layout", z3.BoolVal(False), "safety", None)
        return
    L, Mw = sw.d["left_width"].t, sw.d["middle_width"].t
    hp = lambda f: z3.Select(c.eng.heap(st, f), item.t)
    unit_s = str_of(hp("unit"))
    vfirst = ordsel(orig)
    rhs_s = z3.If(vfirst, str_of(hp("value")), str_of(hp("descr")))
    other_s = z3.If(vfirst, str_of(hp("descr")), str_of(hp("value")))
    fill = z3.Function("py_fill", S, I, S)
    want = z3.Concat(orig, fill(z3.StringVal(" "), L - z3.Length(orig)), z3.StringVal("."), unit_s,
                     blanks(Mw - z3.Length(unit_s) - z3.Length(rhs_s)), rhs_s, z3.StringVal(" : "), other_s)
    c.eng.goal(st, "header-line-layout", line.t == want, "safety", None,
               note="mnemonic padded to the section's left width, period, unit, blank run up to the section's middle width, then value and "
                    "description in the order the table gives for the ORIGINAL mnemonic, separated by ' : '")


def make_w3(section, field, anchor_name, with_std):
    start = 'order_func = get_section_order_function("%s"' % anchor_name

    def verify_with(E, c):
        body, fn = BL.find_block(E, "writer.write", start, "lines.append(line)")
        return E.verify(c, fnode=fn, body=body, module="writer")

    loops = {}
    c = Contract(
        "writer.write#W3-" + section,
        params={"las": REF("LASFile"), "version": OBJ, "lines": LIST(STR), "header_width": INT},
        requires=w3_pre(field),
        ensures=lambda c: ([("values-normalised-in-place", z3.BoolVal(True))] + values_standardised(c, sec_view(c, field), sec_view(c, field).n)) if with_std else [],
        modifies=({"value": only_section_items(field)} if with_std else {}),
        pad_obligation=True, reveal=("obj",), prune=True, hooks={"lines.append(line)": w3_line_hook},
        verify_with=verify_with,
        properties=("C03", "C11", "C16", "C13", "C12"), noraise=True)
    c.loop_by_anchor = True
    if with_std:
        c.loops = {0: w3_loop_std(field), 1: w3_loop_fmt(field, True)}
    else:
        c.loops = {0: w3_loop_fmt(field, False)}
    c.loop_fields = ["value"] if with_std else []
    return REG.add(c)


W3_WELL = make_w3("Well", "$sec_Well", "Well", True)
W3_PARAMS = make_w3("Parameter", "$sec_Parameter", "Parameter", True)
W3_CURVES = make_w3("Curves", "$sec_Curves", "Curves", False)


# ---------------------------------------------------------------- W3-Other: the ~Other text is written line for line (C03)
sl_len = z3.Function("py_splitlines_len", S, I)
sl_arr = z3.Function("py_splitlines_arr", S, z3.ArraySort(I, S))


def w3o_post(c):
    ln, ln0 = c.v("lines"), c.a["lines"]
    other = z3.Select(c.h("$sec_Other"), c.a["las"].t)
    k = sl_len(other)
    return [("one-title-line-then-every-line-of-the-text", ln.n == ln0.n + 1 + k),
            ("earlier-lines-kept", forall(q, z3.Implies(z3.And(0 <= q, q < ln0.n), z3.Select(ln.cols[0], q) == z3.Select(ln0.cols[0], q)))),
            ("the-title-line-starts-with-~Other", z3.PrefixOf(z3.StringVal("~Other "), z3.Select(ln.cols[0], ln0.n))),
            ("the-lines-of-las.other-follow-unchanged-and-in-order (blank ones included)",
             forall(q, z3.Implies(z3.And(0 <= q, q < k), z3.Select(ln.cols[0], ln0.n + 1 + q) == z3.Select(sl_arr(other), q))))]


def w3o_verify(E, c):
    body, fn = BL.find_block(E, "writer.write", 'lines.append("~Other "', 2)
    return E.verify(c, fnode=fn, body=body, module="writer")


W3_OTHER = REG.add(Contract(
    "writer.write#W3-Other", params={"las": REF("LASFile"), "lines": LIST(STR), "header_width": INT},
    requires=lambda c: [("len>=0", c.a["lines"].n >= 0)],
    ensures=w3o_post, modifies={}, verify_with=w3o_verify, noraise=True,
    properties=("C03", "C11", "C12")))
REG.add(Contract("las.LASFile.other", params={"self": REF("LASFile")}, inline=True))
