"""C01 / C06 (write side): the data-cell formatter closure of writer.write (W5)."""
import ast as _ast
import z3
from pyvc.values import *
from pyvc.spec import Contract
from pyvc.state import OutOfSubset
from .common import *
from . import las_items as LI
from . import las_api as API
from . import las_write_state as WS

isnan = z3.Function("np_isnan", PyObj, B)
py_fmt = z3.Function("py_fmt", S, PyObj, S)
py_fill = z3.Function("py_fill", S, I, S)

is_number = z3.Function("np_is_numeric", PyObj, B)
_o5 = z3.Const("ax_o5", PyObj)
REG.axioms.append(("T-np:nan-is-numeric", z3.ForAll([_o5], z3.Implies(isnan(_o5), is_number(_o5)), patterns=[isnan(_o5)]), "np"))
REG.add(Contract("lib:np.isnan", params={"x": OBJ}, returns=BOOL, assumed=True,
                 raises=[("TypeError", lambda c: z3.Not(is_number(c.a["x"].t)))],
                 ensures=lambda c: [("T-np", c.res.t == isnan(c.a["x"].t))],
                 note="T-np: numpy.isnan is a function of its argument; raises TypeError for non-numeric input",
                 properties=("C01", "C06")))

K_NULL = z3.StringVal("NULL")


def verify_w5(E, c):
    outer = E.funcs["writer.write"]
    inner = [n for n in _ast.walk(outer) if isinstance(n, _ast.FunctionDef) and n.name == "format_data_section_line"]
    if len(inner) != 1:
        raise OutOfSubset("closure format_data_section_line not found in writer.write")
    fn = inner[0]
    fn._pyvc_top = True
    return E.verify(c, fnode=fn, module="writer")


def rjust(value, l, st=None):
    pad = py_fill(z3.StringVal(" "), l - z3.Length(value))
    return z3.Concat(pad, value)


def w5_post(c):
    n, fmt, l, sp = c.a["n"].t, c.a["fmt"].t, c.a["l"].t, c.a["spacing_chars"].t
    v = WS.wv(c)
    nullval = z3.Function("value_of_first_NULL", z3.ArraySort(I, PyObj), z3.ArraySort(I, I), I, PyObj)
    res = c.res.t
    kk = z3.Int("kk5")
    is_null_item = lambda r: z3.Exists([kk], z3.And(LI.first_match(v, K_NULL, kk), v.item(kk) == r))
    r = z3.Int("r5")
    val_num = py_fmt(fmt, n)
    body = lambda value: z3.If(l != -1, z3.Concat(sp, rjust(value, l)), z3.Concat(sp, value))
    return [
        ("NaN-is-written-as-the-current-NULL-value", z3.Implies(isnan(n), z3.Exists([r], z3.And(
            is_null_item(r), res == body(str_of(z3.Select(c.h("value"), r))))))),
        ("a-number-is-written-with-its-format, prefixed by the spacer, right-justified unless l == -1",
         z3.Implies(z3.Not(isnan(n)), z3.Or(res == body(val_num), res == body(str_of(n))))),
    ]


W5 = REG.add(Contract(
    "writer.write#W5-format_data_section_line",
    params={"n": OBJ, "fmt": STR, "l": INT, "spacing_chars": STR, "las": API.LAS},
    requires=lambda c: WS.well_shape(c),
    raises=[("KeyError", lambda c: z3.And(isnan(c.a["n"].t), LI.nomatch(WS.wv(c), K_NULL)))],
    ensures=w5_post, returns=STR, verify_with=verify_w5,
    properties=("C01", "C06", "C12", "C11"), may_raise=[], reveal=("np",), free_default=True))


# ---------------------------------------------------------------- W7: the data-row loop of writer.write (unwrapped case)
from pyvc import blocks as BL
colfmt = z3.Function("column_fmt_of", I, S)
fmtcell = z3.Function("formatted_cell", PyObj, S, S, S)        # format_data_section_line(n, fmt, spacing_chars=sp)
rowtext = z3.Function("row_text", I, I, S)                      # first j cells of row i, concatenated
getitem = z3.Function("py_getitem", PyObj, PyObj, PyObj)

REG.add(Contract("lib:get_column_fmt", params={"j": INT}, returns=lambda c: VStr(colfmt(c.a["j"].t)), assumed=True, noraise=True,
                 note="closure of writer.write: column_fmt.get(j, fmt) - a function of j", properties=("C01", "C11", "C12")))
REG.add(Contract("lib:get_left_spacing", params={"j": INT}, assumed=True, noraise=True,
                 returns=lambda c: VStr(z3.If(c.a["j"].t == 0, z3.String("lhs_spacer"), z3.String("spacer"))),
                 note="closure of writer.write: lhs_spacer for column 0, spacer otherwise", properties=("C01", "C11", "C12")))
REG.add(Contract("lib:format_data_section_line", params={"n": OBJ, "fmt": STR, "spacing_chars": STR}, assumed=True, noraise=True,
                 returns=lambda c: VStr(fmtcell(c.a["n"].t, c.a["fmt"].t, c.a["spacing_chars"].t)),
                 note="the cell formatter closure, verified separately as W5", properties=("C01", "C11", "C12")))
def _wrap_width_pre(c):
    w, dw = c.a.get("width"), c.st.env.get("data_width")
    if isinstance(w, VInt) and isinstance(dw, VInt):
        return [("lines-are-wrapped-at-the-requested-data_width (a field as wide as data_width is never cut)", w.t == dw.t)]
    return [("lines-are-wrapped-at-the-requested-data_width (a field as wide as data_width is never cut)", z3.BoolVal(False))]


REG.add(Contract("lib:textwrap.TextWrapper", params={"width": "any"}, returns=OBJ, assumed=True, noraise=True, requires=_wrap_width_pre,
                 note="T-wrap: TextWrapper(width=w) breaks only at whitespace provided every token is <= w long",
                 properties=("C01", "C12", "C11")))


def w7_cell(c, i, j):
    v = API.cv(_LasAlias(c))
    data = z3.Select(c.h("data"), v.item(j))
    sp = z3.If(j == 0, z3.String("lhs_spacer"), z3.String("spacer"))
    return fmtcell(getitem(data, obj_of_int(i)), colfmt(j), sp)


class _LasAlias:
    def __init__(s, c):
        s.__dict__.update(c.__dict__)
        s.a = dict(c.a); s.a["self"] = c.a["las"]
        s._c = c

    def h(s, f): return s._c.h(f)
    def old(s, f): return s._c.old(f)


def w7_init(c, st):
    i, j = z3.Int("rt_i"), z3.Int("rt_j")
    st.assume(z3.ForAll([i], rowtext(i, 0) == z3.StringVal(""), patterns=[rowtext(i, 0)]))
    step = z3.ForAll([i, j], z3.Implies(j >= 0, rowtext(i, j + 1) == z3.Concat(rowtext(i, j), w7_cell(c, i, j))), patterns=[rowtext(i, j + 1)])
    st.assume(step)
    st.ghost["ax:rowtext-step"] = step
    st.ghost["$written"] = VList(z3.IntVal(0), [z3.K(I, z3.StringVal(""))], STR)


def w7_write_hook(c, st):
    line = st.env["line"]
    w = st.ghost["$written"]
    st.ghost["$written"] = VList(w.n + 1, [z3.Store(w.cols[0], w.n, z3.Concat(line.t, z3.StringVal("\n")))], STR)


def w7_outer(c):
    w = c.g("$written")
    q = z3.Int("q7")
    return [("one-physical-line-per-row-so-far", w.n == c.i),
            ("each-line-is-the-row's-cells-in-curve-order", z3.ForAll([q], z3.Implies(z3.And(0 <= q, q < c.i),
                                                                                      z3.Select(w.cols[0], q) == z3.Concat(rowtext(q, c.a["ncols"].t), z3.StringVal("\n"))))),
            ("heap-untouched", z3.And(c.h("data") == c.old("data"), c.h("$items") == c.old("$items"), c.h("$len") == c.old("$len")))]


def w7_inner(c):
    i = c.v("i").t
    return [("cells-so-far", c.v("depth_slice").t == rowtext(i, c.i)),
            ("row-index", z3.And(0 <= i, i < c.a["nrows"].t)),
            ("nothing-written-meanwhile", c.g("$written").n == i)] + w7_outer_at(c, i)


def w7_outer_at(c, i):
    w = c.g("$written")
    q = z3.Int("q7b")
    return [("earlier-lines-kept", z3.ForAll([q], z3.Implies(z3.And(0 <= q, q < i),
                                                            z3.Select(w.cols[0], q) == z3.Concat(rowtext(q, c.a["ncols"].t), z3.StringVal("\n"))))),
            ("heap-untouched", z3.And(c.h("data") == c.old("data"), c.h("$items") == c.old("$items"), c.h("$len") == c.old("$len")))]


def w7_verify(E, c):
    body, fn = BL.find_block(E, "writer.write", "twrapper = textwrap.TextWrapper", "for i in range(nrows)")
    return E.verify(c, fnode=fn, body=body, module="writer")


W7 = REG.add(Contract(
    "writer.write#W7-data-rows(unwrapped)",
    params={"las": API.LAS, "nrows": INT, "ncols": INT, "wrap": CONST(False), "data_width": INT, "file_object": FILE,
            "line_counter": INT, "version_section_to_write": LI.SI,
            "get_column_fmt": VExt("lib:get_column_fmt"), "get_left_spacing": VExt("lib:get_left_spacing"),
            "format_data_section_line": VExt("lib:format_data_section_line")},
    requires=lambda c: API.las_shape(_LasAlias(c)) + LI.shape(c, selfname="version_section_to_write") + [
        ("as-many-columns-as-curves", z3.And(c.a["ncols"].t == API.cv(_LasAlias(c)).n, c.a["nrows"].t >= 0))],
    ensures=lambda c: [("one-physical-line-per-row", c.g("$written").n == c.a["nrows"].t)] + w7_outer_at(c, c.a["nrows"].t)[:1],
    loops={0: w7_outer, 1: w7_inner}, loop_ghost={0: ["$written"], 1: ["$written"]},
    loop_hints={1: lambda c: [(c.g("ax:rowtext-step"), [c.v("i").t, c.i])]},
    ghost_init=w7_init, hooks={'file_object.write(line + "\\n")': w7_write_hook},
    verify_with=w7_verify, may_raise=["AttributeError", "Any"], free_default=True,
    properties=("C01", "C11", "C12")))
W7.note = "wrapped output goes through textwrap (T-wrap), outside the contract; data[i] is an opaque numpy index"


# ---------------------------------------------------------------- the per-column format closure of writer.write
def verify_gcf(E, c):
    outer = E.funcs["writer.write"]
    inner = [n for n in _ast.walk(outer) if isinstance(n, _ast.FunctionDef) and n.name == "get_column_fmt"]
    if len(inner) != 1:
        raise OutOfSubset("closure get_column_fmt not found in writer.write")
    fn = inner[0]
    fn._pyvc_top = True
    return E.verify(c, fnode=fn, module="writer")


def gcf_post(c):
    cf, j = c.a["column_fmt"].t, obj_of_int(c.a["j"].t)
    has = z3.Function("py_contains", PyObj, PyObj, B)(cf, j)
    o = z3.Const("any_obj", PyObj)
    return [("the-column's-own-format-if-the-caller-gave-one-else-the-general-fmt",
             c.eng.to_obj(c.res) == z3.If(has, getitem(cf, j), obj_of_str(c.a["fmt"].t))),
            ("the-caller's-column_fmt-dict-is-only-read (a second write with another fmt is not affected by the first)",
             z3.ForAll([o], z3.Not(z3.Select(c.g("$mutated"), o))))]


GCF = REG.add(Contract(
    "writer.write#get_column_fmt", params={"j": INT, "column_fmt": OBJ, "fmt": STR},
    ensures=gcf_post, ghost_init=LI.get_ghost, verify_with=verify_gcf, modifies={}, noraise=True,
    properties=("C01", "C12", "C16")))


# ---------------------------------------------------------------- W6: the data-section title line of writer.write
# Block: the single statement `if mnemonics_header: ... else: ...`.  What the reader relies on (C01, C11, C12): the title of the data
# section, i.e. everything this block writes (in however many write calls), begins with data_section_header + " " and ends with the
# line terminator - whatever `wrap`, the widths and the mnemonics are; text that passed through a re-flowing library call is unknown text.  (That no mnemonic contains a line break is not claimed.)
def w6_init(c, st):
    st.ghost["$title_text"] = z3.StringVal("")
    st.ghost["$dsh0"] = c.a["data_section_header"].t


def w6_write_hook(c, st):
    n = getattr(st, "hook_node", None)
    call = getattr(n, "value", None)
    t = z3.String(fresh_name("unknown_text"))
    if isinstance(call, _ast.Call) and len(call.args) == 1:
        out = []
        rs = c.eng.ev(call.args[0], st, out)
        if len(rs) == 1 and not out and isinstance(rs[0][1], VStr):
            t = rs[0][1].t
    st.ghost["$title_text"] = z3.Concat(st.ghost["$title_text"], t)


def w6_verify(E, c):
    body, fn = BL.find_block(E, "writer.write", "if mnemonics_header:", 1)
    return E.verify(c, fnode=fn, body=body, module="writer")


def w6_nothing_written(c):
    return [("nothing-written-inside-the-loops", c.g("$title_text") == z3.StringVal(""))]


W6 = REG.add(Contract(
    "writer.write#W6-data-section-title",
    params={"las": API.LAS, "mnemonics_header": BOOL, "ncols": INT, "data_arr": OBJ, "data_section_header": STR, "header_width": INT,
            "wrap": BOOL, "data_width": INT, "file_object": FILE,
            "get_column_fmt": VExt("lib:get_column_fmt"), "get_left_spacing": VExt("lib:get_left_spacing"),
            "format_data_section_line": VExt("lib:format_data_section_line")},
    requires=lambda c: API.las_shape(_LasAlias(c)) + [("as-many-columns-as-curves", c.a["ncols"].t == API.cv(_LasAlias(c)).n)],
    ensures=lambda c: [("what-is-written-begins-with-data_section_header-and-a-blank", z3.PrefixOf(z3.Concat(c.g("$dsh0"), z3.StringVal(" ")), c.g("$title_text"))),
                       ("and-ends-with-the-line-terminator", z3.SuffixOf(z3.StringVal("\n"), c.g("$title_text")))],
    loops={0: lambda c: w6_nothing_written(c) + [("one-width-per-column", c.v("header_col_widths").n == c.i)],
           1: lambda c: w6_nothing_written(c) + [("one-value-per-curve", c.v("header_values").n == c.i),
                                                  ("widths-kept", c.v("header_col_widths").n == c.a["ncols"].t)],
           2: lambda c: w6_nothing_written(c)},
    loop_ghost={0: ["$title_text"], 1: ["$title_text"], 2: ["$title_text"]},
    local_types={"header_col_widths": LIST(INT), "header_values": LIST(STR)},
    ghost_init=w6_init, hooks={"file_object.write(": w6_write_hook},
    verify_with=w6_verify, abstract_exprs=True, may_raise=["Any"], free_default=True, modifies={},
    properties=("C01", "C11", "C12")))
W6.note = "data_arr[0, j] is an opaque numpy index; the text between the prefix and the terminator (the mnemonics) is not constrained"
