"""C01 / C06 (write side): the data-cell formatter closure of writer.write (W5)."""
import ast as _ast
import z3
from pyvc.values import *
from pyvc.spec import Contract
from pyvc.state import OutOfSubset
from .common import *
from . import las_items as LI
from . import las_api as API
from . import las_write_state as WS

isnan = z3.Function("np_isnan", PyObj, B)
py_fmt = z3.Function("py_fmt", S, PyObj, S)
py_fill = z3.Function("py_fill", S, I, S)

is_number = z3.Function("np_is_numeric", PyObj, B)
_o5 = z3.Const("ax_o5", PyObj)
REG.axioms.append(("T-np:nan-is-numeric", z3.ForAll([_o5], z3.Implies(isnan(_o5), is_number(_o5)), patterns=[isnan(_o5)]), "np"))
REG.add(Contract("lib:np.isnan", params={"x": OBJ}, returns=BOOL, assumed=True,
                 raises=[("TypeError", lambda c: z3.Not(is_number(c.a["x"].t)))],
                 ensures=lambda c: [("T-np", c.res.t == isnan(c.a["x"].t))],
                 note="T-np: numpy.isnan is a function of its argument; raises TypeError for non-numeric input",
                 properties=("C01", "C06")))

K_NULL = z3.StringVal("NULL")


def verify_w5(E, c):
    outer = E.funcs["writer.write"]
    inner = [n for n in _ast.walk(outer) if isinstance(n, _ast.FunctionDef) and n.name == "format_data_section_line"]
    if len(inner) != 1:
        raise OutOfSubset("closure format_data_section_line not found in writer.write")
    fn = inner[0]
    fn._pyvc_top = True
    return E.verify(c, fnode=fn, module="writer")


def rjust(value, l, st=None):
    pad = py_fill(z3.StringVal(" "), l - z3.Length(value))
    return z3.Concat(pad, value)


def w5_post(c):
    n, fmt, l, sp = c.a["n"].t, c.a["fmt"].t, c.a["l"].t, c.a["spacing_chars"].t
    v = WS.wv(c)
    nullval = z3.Function("value_of_first_NULL", z3.ArraySort(I, PyObj), z3.ArraySort(I, I), I, PyObj)
    res = c.res.t
    kk = z3.Int("kk5")
    is_null_item = lambda r: z3.Exists([kk], z3.And(LI.first_match(v, K_NULL, kk), v.item(kk) == r))
    r = z3.Int("r5")
    val_num = py_fmt(fmt, n)
    body = lambda value: z3.If(l != -1, z3.Concat(sp, rjust(value, l)), z3.Concat(sp, value))
    return [
        ("NaN-is-written-as-the-current-NULL-value", z3.Implies(isnan(n), z3.Exists([r], z3.And(
            is_null_item(r), res == body(str_of(z3.Select(c.h("value"), r))))))),
        ("a-number-is-written-with-its-format, prefixed by the spacer, right-justified unless l == -1",
         z3.Implies(z3.Not(isnan(n)), z3.Or(res == body(val_num), res == body(str_of(n))))),
    ]


W5 = REG.add(Contract(
    "writer.write#W5-format_data_section_line",
    params={"n": OBJ, "fmt": STR, "l": INT, "spacing_chars": STR, "las": API.LAS},
    requires=lambda c: WS.well_shape(c),
    raises=[("KeyError", lambda c: z3.And(isnan(c.a["n"].t), LI.nomatch(WS.wv(c), K_NULL)))],
    ensures=w5_post, returns=STR, verify_with=verify_w5,
    properties=("C01", "C06"), may_raise=[], reveal=("np",)))
