#!/bin/sh
# tools_confirm_neutral.sh <id> : a behaviour-preserving change must apply, keep the 254-test baseline, and its demo must pass with and without it
ID=$1
S=/verif/neutral/$ID
W=/var/tmp/neutralwt_$ID
rm -rf $W; git -C /repo worktree add -q --detach $W HEAD || exit 9
cd $W
PYTHONPATH=$W /venv/bin/python $S/demo.py > $S/confirm_demo_without.txt 2>&1; D0=$?
if git apply $S/patch.diff 2>/dev/null; then APPLIES=1; else APPLIES=0; fi
PYTHONPATH=$W /venv/bin/python $S/demo.py > $S/confirm_demo_with.txt 2>&1; D1=$?
T=$(PYTHONPATH=$W /venv/bin/python -m pytest -q -p no:cacheprovider --timeout=900 2>&1 | tail -1)
HEAD=$(git -C /repo rev-parse --short HEAD)
echo "{\"id\": \"$ID\", \"repo_head\": \"$HEAD\", \"applies\": $APPLIES, \"demo_exit_without_change\": $D0, \"demo_exit_with_change\": $D1, \"test_suite_with_change\": \"$T\"}" > $S/confirm.json
cat $S/confirm.json
cd /; git -C /repo worktree remove --force $W
