#!/bin/sh
# tools_confirm_seed.sh <id> : confirm a seeded change on a scratch worktree of /repo HEAD:
#  the patch applies, the 254-test baseline still passes, the demo fails with it and passes without it.
ID=$1
S=/verif/seeded/$ID
W=/var/tmp/seedwt_$ID
P=$S/patch.diff; [ -f $S/patch.rebased.diff ] && P=$S/patch.rebased.diff
rm -rf $W; git -C /repo worktree add -q --detach $W HEAD || exit 9
cd $W
PYTHONPATH=$W /venv/bin/python $S/demo.py > $S/confirm_demo_without.txt 2>&1; D0=$?
if git apply $P 2>/dev/null; then APPLIES=1; else APPLIES=0; fi
PYTHONPATH=$W /venv/bin/python $S/demo.py > $S/confirm_demo_with.txt 2>&1; D1=$?
T=$(PYTHONPATH=$W /venv/bin/python -m pytest -q -p no:cacheprovider --timeout=900 2>&1 | tail -1)
HEAD=$(git -C /repo rev-parse --short HEAD)
echo "{\"id\": \"$ID\", \"repo_head\": \"$HEAD\", \"patch\": \"$(basename $P)\", \"applies\": $APPLIES, \"demo_exit_without_change\": $D0, \"demo_exit_with_change\": $D1, \"test_suite_with_change\": \"$T\"}" > $S/confirm.json
cat $S/confirm.json
cd /; git -C /repo worktree remove --force $W
