"""regenerate MANIFEST.json from props/Cxx.py META records (dev-time tool)"""
import importlib, json, os, sys
HERE = os.path.dirname(os.path.abspath(__file__)); sys.path.insert(0, HERE)
ids = ["C%02d" % i for i in range(1, 21)]
NA = {}  # id -> reason, for properties not claimed
checks, na = [], []
for i in ids:
    try:
        m = importlib.import_module("props." + i)
    except ModuleNotFoundError:
        na.append({"property_id": i, "reason": NA.get(i, "check under construction in this session: contracts/bounded harness not yet committed")})
        continue
    M = m.META
    checks.append({
        "property_id": i,
        "quick_cmd": "./vcheck %s --tier quick" % i,
        "thorough_cmd": "./vcheck %s --tier thorough" % i,
        "evidence_file": "/verif/evidence/%s.json" % i,
        "replay_cmd_template": "./vcheck %s --replay {path}" % i,
        "engine": "pyvc",
        "level_claimed": {"category": M["level"], "text": M["level_text"], "design_ref": M.get("design_ref", "")},
        "level_note": M["level_note"],
        "technique": M["technique"],
    })
man = {
    "version": 1,
    "setup_cmd": "true",
    "hooks": {
        "guard": "KINVERARITY1_LASIO_VERIF",
        "enable": "export KINVERARITY1_LASIO_VERIF=1 (read at run time by lasio.las; pure Python, no build step; the checks set it themselves)",
        "baseline_off_cmd": "cd /repo && env -u KINVERARITY1_LASIO_VERIF /venv/bin/python -m pytest -ra -q -p no:cacheprovider --timeout=900 --continue-on-collection-errors",
        "source_commits": ["95464f0"],
        "add_only": True,
    },
    "engines": [
        {"name": "pyvc", "path": "/verif/pyvc", "serves_properties": [c["property_id"] for c in checks],
         "kind_free_text": "verification-condition generator over the ast of the real /repo source (re-read every run) against sidecar contracts in /verif/specs; goals discharged by z3 5.1 (python API, 16 processes) and cvc5 1.0.3; native bounded harnesses in /verif/bounded run the same clauses on the real code under /venv/bin/python"},
    ],
    "checks": checks,
    "notes": "exit codes of ./vcheck: 0 held (KNOWN-FINDING lines possible), 1 violation, 2 undecided (solver flake on an obligation textually identical to a discharged baseline one), 3 checker crash. Known findings: /verif/known_findings.json.",
    "not_applicable": na,
}
json.dump(man, open(os.path.join(HERE, "MANIFEST.json"), "w"), indent=1)
import jsonschema
jsonschema.validate(man, json.load(open("/root/.vp/MANIFEST.schema.json")))
print("MANIFEST ok:", len(checks), "checks,", len(na), "not applicable")
