#!/usr/bin/env python3
"""tools_neutralrun.py [ids...] : behaviour-PRESERVING changes (/verif/neutral/<id>/patch.diff, written by independent
sub-agents as harmless refactorings of code a property depends on).  Each is applied to /repo (git apply), the quick check of
its property is run, and it is reverted (git checkout -- .).  A VIOLATION here is a false alarm of the check; OUT-OF-REACH
(proof no longer applies, harness decides) is recorded as such.  Never leaves /repo modified."""
import json, os, re, subprocess, sys, time
S = "/verif/neutral"
ids = sys.argv[1:] or sorted(x for x in os.listdir(S) if os.path.isdir(os.path.join(S, x)))
for nid in ids:
    d = os.path.join(S, nid)
    patch = os.path.join(d, "patch.diff")
    if not os.path.exists(patch):
        continue
    prop = nid.split("-")[0]
    assert subprocess.run(["git", "-C", "/repo", "status", "--porcelain", "--untracked-files=no"], capture_output=True, text=True).stdout.strip() == "", "repo not clean"
    r = subprocess.run(["git", "-C", "/repo", "apply", patch], capture_output=True, text=True)
    if r.returncode != 0:
        print(nid, "PATCH DOES NOT APPLY"); continue
    try:
        t0 = time.time()
        pr = subprocess.run(["./vcheck", prop, "--tier", "quick", "--no-evidence"], cwd="/verif", capture_output=True, text=True)
        out = pr.stdout
        res = {"exit": pr.returncode, "wall_s": round(time.time() - t0, 1),
               "violations": [l[:300] for l in out.splitlines() if l.startswith("VIOLATION")][:5],
               "undischarged": [l.split()[1] for l in out.splitlines() if l.startswith("UNDISCHARGED")][:8],
               "out_of_reach": [l[:300] for l in out.splitlines() if l.startswith("OUT-OF-REACH")][:5]}
    finally:
        subprocess.run(["git", "-C", "/repo", "checkout", "--", "."], check=True)
    mp = os.path.join(d, "meta.json")
    meta = json.load(open(mp)) if os.path.exists(mp) else {"id": nid, "property": prop}
    meta["check_result"] = res
    meta["verdict"] = "false-alarm" if res["exit"] == 1 else ("out-of-reach" if res["out_of_reach"] else ("quiet" if res["exit"] == 0 else "exit-%d" % res["exit"]))
    json.dump(meta, open(mp, "w"), indent=1)
    print(nid, meta["verdict"], res["exit"], res["undischarged"][:2], [x[:120] for x in res["out_of_reach"][:1]], flush=True)
