"""developer driver: python3-vt tools_run.py [--root R] [--timeout T] <contract-key-substring>..."""
import sys, time, argparse, importlib, glob, os
sys.path.insert(0, os.path.dirname(os.path.abspath(__file__)))
from pyvc import engine, stmts, smt
from pyvc.state import OutOfSubset
ap = argparse.ArgumentParser(); ap.add_argument('--root', default='/repo'); ap.add_argument('--timeout', type=float, default=10)
ap.add_argument('--show', action='store_true'); ap.add_argument('keys', nargs='*')
a = ap.parse_args()
from specs.common import REG
for f in sorted(glob.glob(os.path.join(os.path.dirname(os.path.abspath(__file__)), 'specs', '*.py'))):
    m = os.path.basename(f)[:-3]
    if m not in ('__init__', 'common'): importlib.import_module('specs.' + m)
E = engine.Engine(a.root, REG)
allg = []
for name, cs in REG.contracts.items():
    for c in cs:
        if c.inline or c.assumed or name.startswith('lib:'): continue
        if a.keys and not any(k in c.key for k in a.keys): continue
        t0 = time.time()
        try:
            gs = c.verify_with(E, c) if getattr(c, 'verify_with', None) else E.verify(c)
        except OutOfSubset as e:
            print('OUT-OF-SUBSET', c.key, e); continue
        allg += gs
        print('%-70s %4d goals  gen %.2fs' % (c.key, len(gs), time.time() - t0))
t0 = time.time()
st = smt.discharge(allg, timeout_s=a.timeout)
print(st, 'wall %.1fs' % (time.time() - t0), 'goals', len(allg), 'discharged', sum(g.status == 'unsat' for g in allg))
for g in allg:
    if g.status != 'unsat': print('  OPEN', g.status, g.name, 'line', g.line, getattr(g, 'reason', ''), getattr(g, 'trace', '')[-8:])
for g in sorted(allg, key=lambda g: -g.time)[:8]:
    print('  SLOW %.1fs %s %s' % (g.time, g.solver, g.name))
