#!/usr/bin/env python3
"""tools_seedmeta.py <id>... : write seeded/<id>/meta.json from confirm.json (tools_confirm_seed.sh) and notes.md.
A seed is `effective` when its patch applies to /repo HEAD, its demo passes without and fails with the change,
and the pinned test-suite still reports 254 passed; otherwise `neutralised` (kept for the record, never run)."""
import json, os, re, sys
S = "/verif/seeded"
for sid in sys.argv[1:]:
    d = os.path.join(S, sid)
    cf = json.load(open(os.path.join(d, "confirm.json")))
    notes = open(os.path.join(d, "notes.md"), encoding="utf-8").read() if os.path.exists(os.path.join(d, "notes.md")) else ""
    ok = bool(cf["applies"]) and cf["demo_exit_without_change"] == 0 and cf["demo_exit_with_change"] != 0 \
        and "254 passed" in cf["test_suite_with_change"]
    rnd = 6 if sid.endswith(("-11", "-12")) else 2 if sid.endswith(("-3", "-4")) else 1
    meta = {"id": sid, "property": sid.split("-")[0], "round": rnd,
            "origin": "independent sub-agent (%s round, on the %s tree) given only the property text and a scratch worktree of /repo"
                      % ({1: "first", 2: "second", 6: "sixth"}[rnd], "pre-fix" if rnd == 1 else "repaired"),
            "patch": cf["patch"], "status": "effective" if ok else "neutralised",
            "needs_to_manifest": re.sub(r"\s+", " ", notes)[:600],
            "confirmed": {"by": "tools_confirm_seed.sh on a scratch worktree of /repo HEAD %s" % cf["repo_head"],
                          "patch_applies": bool(cf["applies"]), "demo_exit_without_change": cf["demo_exit_without_change"],
                          "demo_exit_with_change": cf["demo_exit_with_change"], "test_suite_with_change": cf["test_suite_with_change"]}}
    json.dump(meta, open(os.path.join(d, "meta.json"), "w"), indent=1)
    print(sid, meta["status"])
