#!/usr/bin/env python3
"""tools_seedrun.py [ids...] : for every confirmed-effective seeded change under /verif/seeded,
apply it to /repo (git apply), run the quick check of its property (and any extra properties
given in meta.json 'also'), undo it (git checkout -- .), and record which check reported a
violation and through which obligation / native clause.  Never leaves /repo modified."""
import json, os, re, subprocess, sys, time
S = "/verif/seeded"
# --worktree: instead of patching /repo itself, apply the change to a scratch `git worktree` of /repo HEAD under /var/tmp and run the
# check with --repo <worktree> (same code path: the VCs are regenerated from that tree, the native harness imports it).  Lets several
# seeds be run side by side; the worktree is removed afterwards.  Without the flag /repo itself is patched and restored.
WT = "--worktree" in sys.argv
ids = [a for a in sys.argv[1:] if not a.startswith("--")] or sorted(os.listdir(S))
for sid in ids:
    d = os.path.join(S, sid)
    mp = os.path.join(d, "meta.json")
    if not os.path.exists(mp):
        continue
    meta = json.load(open(mp))
    if meta.get("status") != "effective":
        continue
    patch = os.path.join(d, meta["patch"])
    tree = "/repo"
    if WT:
        tree = "/var/tmp/seedrun_wt_%s" % sid
        subprocess.run(["git", "-C", "/repo", "worktree", "remove", "--force", tree], capture_output=True)
        subprocess.run(["git", "-C", "/repo", "worktree", "add", "-q", "--detach", tree, "HEAD"], check=True)
    else:
        assert subprocess.run(["git", "-C", "/repo", "status", "--porcelain", "--untracked-files=no"], capture_output=True, text=True).stdout.strip() == "", "repo not clean"
    r = subprocess.run(["git", "-C", tree, "apply", patch], capture_output=True, text=True)
    if r.returncode != 0:
        print(sid, "PATCH DOES NOT APPLY")
        if WT:
            subprocess.run(["git", "-C", "/repo", "worktree", "remove", "--force", tree])
        continue
    results = {}
    try:
        for prop in [meta["property"]] + meta.get("also", []):
            t0 = time.time()
            pr = subprocess.run(["./vcheck", prop, "--tier", "quick", "--no-evidence"] + (["--repo", tree] if WT else []), cwd="/verif", capture_output=True, text=True)
            out = pr.stdout
            vio = [l for l in out.splitlines() if l.startswith("VIOLATION")]
            und = [l.split()[1] for l in out.splitlines() if l.startswith("UNDISCHARGED")]
            oor = [l for l in out.splitlines() if l.startswith("OUT-OF-REACH")]
            results[prop] = {"exit": pr.returncode, "wall_s": round(time.time() - t0, 1), "violations": len(vio),
                             "first_violation": vio[0] if vio else None, "undischarged": und[:6], "out_of_reach": oor[:3],
                             "native_classes": sorted(set(re.sub(r".*replay=\S*/", "", l).replace(".json", "")[:90] for l in vio))[:4]}
    finally:
        if WT:
            subprocess.run(["git", "-C", "/repo", "worktree", "remove", "--force", tree], check=True)
        else:
            subprocess.run(["git", "-C", "/repo", "checkout", "--", "."], check=True)
    meta["check_results"] = results
    meta["caught"] = any(v["exit"] == 1 for v in results.values())
    meta["checked_at_repo_head"] = subprocess.run(["git", "-C", "/repo", "rev-parse", "--short", "HEAD"], capture_output=True, text=True).stdout.strip()
    json.dump(meta, open(mp, "w"), indent=1)
    print(sid, "CAUGHT" if meta["caught"] else "MISSED", {p: (v["exit"], v["undischarged"][:2]) for p, v in results.items()}, flush=True)
