#!/usr/bin/env python3
"""print the markdown table of seeded changes for DESIGN.md section 9 from seeded/*/meta.json"""
import json, os, re
S = "/verif/seeded"
rows = []
SUM = json.load(open(os.path.join(S, "summaries.json")))
for sid in sorted(os.listdir(S)):
    mp = os.path.join(S, sid, "meta.json")
    if not os.path.exists(mp):
        continue
    m = json.load(open(mp))
    what = SUM.get(sid) or re.sub(r"\s+", " ", m.get("summary") or m.get("needs_to_manifest", ""))[:150]
    if m["status"] != "effective":
        rows.append("| %s | %s | – | neutralised by %s |" % (sid, what, m.get("neutralised_by", "?")[:110]))
        continue
    res = m.get("check_results", {})
    if not res:
        rows.append("| %s | %s | not run | – |" % (sid, what))
        continue
    how = []
    for p, r in res.items():
        if r["exit"] == 1:
            if r["undischarged"]:
                how.append("%s: obligation `%s`" % (p, re.sub(r"@[0-9a-f]+$", "", r["undischarged"][0])))
            elif r["first_violation"] and "counterexample" in r["first_violation"]:
                how.append("%s: solver counterexample replayed natively" % p)
            else:
                how.append("%s: native failing input (%s)" % (p, (r["native_classes"] or ["?"])[0].split("_")[0][:50]))
    if not m.get("caught") and any(r["exit"] not in (0, 1) for r in res.values()):
        how.append("check exit %s (undecided / out of reach)" % sorted({r["exit"] for r in res.values()}))
    if not m.get("caught") and m.get("disputed"):
        rows.append("| %s | %s | not reported | accepted alternative - see the note below the table |" % (sid, what))
        continue
    rows.append("| %s | %s | %s | %s |" % (sid, what, "caught" if m.get("caught") else "**missed**", "; ".join(how) or "–"))
print("| seed | change (from its notes) | result | reported through |\n|---|---|---|---|")
print("\n".join(rows))
