#!/bin/sh
# tools_seedtest.sh <patch.diff> <PROP>... : apply a seeded change to /repo, run the quick checks, undo
P=$1; shift
cd /repo && git apply "$P" || { echo "PATCH DOES NOT APPLY"; exit 9; }
for ID in "$@"; do
  (cd /verif && ./vcheck $ID --tier quick --no-evidence 2>&1 | grep -E "^(VIOLATION|KNOWN|UNDISCH|OUT-OF|CHECKER|UNDECIDED|C[0-9]+ tier)" | cut -c1-260; echo "exit=$?")
done
cd /repo && git checkout -- . && git status --short | head -3
