#!/opt/veriftools/pyvenv/bin/python
"""vcheck <ID> [--tier quick|thorough]  -  decide one property (DESIGN 3).

exit 0 held / known findings only, 1 violation, 2 undecided, 3 checker crash."""
import argparse
import glob
import hashlib
import importlib
import json
import os
import re
import subprocess
import sys
import time
import traceback

HERE = os.path.dirname(os.path.abspath(__file__))
sys.path.insert(0, HERE)
os.chdir(HERE)

VENV_PY = "/venv/bin/python"
SCRATCH = os.environ.get("VERIF_SCRATCH", "/var/tmp/verif-scratch")


def load_specs():
    from specs.common import REG
    for f in sorted(glob.glob(os.path.join(HERE, "specs", "*.py"))):
        m = os.path.basename(f)[:-3]
        if m not in ("__init__", "common"):
            importlib.import_module("specs." + m)
    return REG


def load_known():
    p = os.path.join(HERE, "known_findings.json")
    if not os.path.exists(p):
        return []
    return json.load(open(p))["findings"]


def known_match(known, prop, failure):
    for k in known:
        if k.get("status") != "known" or k["property"] != prop:
            continue
        if failure["clause"] in k["clauses"] and re.search(k["klass_re"], failure["klass"]):
            return k
    return None


def run_bounded(prop, tier, seed, repo, extra_env=None):
    script = os.path.join(HERE, "bounded", prop + ".py")
    if not os.path.exists(script):
        return None
    os.makedirs(SCRATCH, exist_ok=True)
    out = os.path.join(SCRATCH, "bounded_%s_%d.json" % (prop, os.getpid()))
    env = dict(os.environ, VERIF_REPO=repo, KINVERARITY1_LASIO_VERIF="1", VERIF_TIER=tier, VERIF_SEED=str(seed),
               PYTHONDONTWRITEBYTECODE="1")
    env.pop("PYTHONPATH", None)
    if extra_env:
        env.update(extra_env)
    t0 = time.time()
    pr = subprocess.run([VENV_PY, script, "--out", out, "--tier", tier, "--seed", str(seed)],
                        capture_output=True, text=True, env=env, cwd=SCRATCH)
    try:
        if pr.returncode != 0 or not os.path.exists(out):
            return {"crash": True, "stderr": (pr.stderr or "")[-3000:], "stdout": (pr.stdout or "")[-1000:], "wall_s": time.time() - t0}
        res = json.load(open(out))
        res["crash"] = False
        return res
    finally:
        if os.path.exists(out):
            os.unlink(out)


def replay_native(prop, entry, repo):
    """re-run one failing input natively; True iff it still reproduces"""
    script = os.path.join(HERE, "bounded", prop + ".py")
    os.makedirs(SCRATCH, exist_ok=True)
    p = os.path.join(SCRATCH, "replay_%s_%d.json" % (prop, os.getpid()))
    json.dump(entry, open(p, "w"))
    env = dict(os.environ, VERIF_REPO=repo, KINVERARITY1_LASIO_VERIF="1", PYTHONDONTWRITEBYTECODE="1")
    env.pop("PYTHONPATH", None)
    try:
        pr = subprocess.run([VENV_PY, script, "--replay", p], capture_output=True, text=True, env=env, cwd=SCRATCH)
        return pr.returncode == 1, (pr.stdout or "").strip()[-500:] + (pr.stderr or "")[-300:]
    finally:
        os.unlink(p)


def main():
    ap = argparse.ArgumentParser()
    ap.add_argument("prop")
    ap.add_argument("--tier", default=os.environ.get("VERIF_TIER") or "quick")
    ap.add_argument("--seed", type=int, default=int(os.environ.get("VERIF_SEED") or 0))
    ap.add_argument("--repo", default=os.environ.get("VERIF_REPO", "/repo"))
    ap.add_argument("--update-baseline", action="store_true")
    ap.add_argument("--no-bounded", action="store_true")
    ap.add_argument("--no-evidence", action="store_true")
    ap.add_argument("--replay")
    a = ap.parse_args()
    if a.tier not in ("quick", "thorough"):
        a.tier = "quick"
    if a.replay:
        entry = json.load(open(a.replay))
        rep = entry.get("replay", entry)
        if "input" not in rep:
            print("replay file carries no native input (obligation %s): %s" % (entry.get("obligation"), entry.get("solver_output", "")[:500]))
            return 1
        ok, detail = replay_native(a.prop, rep, a.repo)
        print(detail)
        return 1 if ok else 0
    t0 = time.time()
    import z3
    from pyvc import engine, stmts, smt
    from pyvc.state import OutOfSubset
    REG = load_specs()
    props_mod = None
    try:
        props_mod = importlib.import_module("props." + a.prop)
    except ModuleNotFoundError:
        pass
    E = engine.Engine(a.repo, REG)
    contracts = [c for cs in REG.contracts.values() for c in cs
                 if a.prop in c.properties and not c.inline and not c.assumed and not c.name.startswith("lib:")]
    goals, out_of_reach, per_contract = [], [], []
    for c in contracts:
        n0 = len(E.goals)
        try:
            if getattr(c, "verify_with", None):
                gs = c.verify_with(E, c)
            else:
                gs = E.verify(c)
            goals += gs
            q = c.name.split("#")[0]
            per_contract.append({"contract": c.key, "goals": len(gs), "sha": E.sha_of(q) if q in E.funcs else None})
        except OutOfSubset as e:
            del E.goals[n0:]
            out_of_reach.append({"contract": c.key, "reason": str(e)})
        except KeyError as e:
            del E.goals[n0:]
            out_of_reach.append({"contract": c.key, "reason": "function not found: %s" % e})
        except (AttributeError, TypeError, IndexError, AssertionError, ValueError, z3.Z3Exception) as e:
            # the contract's shape assumptions (a local is a list, a loop exists, ...) no longer fit the code:
            # the function is out of the contract's reach - undecided by proof, the native harness alone decides
            del E.goals[n0:]
            out_of_reach.append({"contract": c.key, "reason": "contract no longer fits the code (%s: %s)" % (type(e).__name__, str(e)[:200])})
    lemma_goals = []
    if props_mod is not None and hasattr(props_mod, "lemmas"):
        try:
            lemma_goals = props_mod.lemmas(E, REG)
            goals += lemma_goals
        except OutOfSubset as e:
            out_of_reach.append({"contract": "lemmas:" + a.prop, "reason": str(e)})
        except (AttributeError, TypeError, IndexError, AssertionError, ValueError, KeyError, z3.Z3Exception) as e:
            out_of_reach.append({"contract": "lemmas:" + a.prop, "reason": "lemma no longer fits the code (%s: %s)" % (type(e).__name__, str(e)[:200])})
    timeout = float(os.environ.get("VERIF_GOAL_TIMEOUT") or (60 if a.tier == "quick" else 180))
    baseline_p = os.path.join(HERE, "specs", "baseline_goals.json")
    baseline = json.load(open(baseline_p)) if os.path.exists(baseline_p) else {}
    # stage 1: z3 (E-matching) on everything
    stats = smt.discharge(goals, timeout_s=timeout, seed=a.seed % 1000, stages=("z3-abs", "z3"))
    open1 = [g for g in goals if g.status != "unsat"]
    same = [g for g in open1 if baseline.get(g.name) == smt.goal_hash(g)]      # text identical to a discharged baseline goal
    diff = [g for g in open1 if baseline.get(g.name) != smt.goal_hash(g)]      # new or changed obligation
    def _add(st2):
        for k_ in stats:
            stats[k_] += st2[k_]
    if same:
        # a solver flake by construction: full portfolio, generous budget
        _add(smt.discharge(same, timeout_s=timeout * 4, seed=a.seed % 1000, stages=("z3-mbqi", "cvc5", "z3-abs", "z3")))
    if diff:
        # changed obligations: full portfolio on the first few, the rest stay as stage 1 left them
        _add(smt.discharge(diff[:12], timeout_s=timeout, seed=a.seed % 1000, stages=("z3-mbqi", "cvc5")))
    if a.tier == "thorough":
        # every discharged obligation is re-checked by cvc5 as well (second opinion, 30 s each: cvc5 answering `unknown`
        # changes nothing, cvc5 answering `sat` on an obligation z3 discharged is a solver disagreement -> checker error)
        _add(smt.discharge([g for g in goals if g.status == "unsat"], timeout_s=float(os.environ.get("VERIF_CVC5_RECHECK_TIMEOUT") or 30),
                           stages=("cvc5",), both=True))
        disagreements = [g.name for g in goals if g.status == "unsat" and getattr(g, "cvc5", None) and g.cvc5[0] == "sat"]
        if disagreements:
            print("SOLVER-DISAGREEMENT (z3 unsat, cvc5 sat): %s" % disagreements[:5])
            return 3
    import z3
    vacuous = []
    for key, hyps in E.covers:
        s = z3.Solver(); s.set("timeout", 3000)
        for h in hyps:
            s.add(h)
        if str(s.check()) == "unsat":
            vacuous.append(key)
    # ---- exit-path reachability: a contract all of whose sampled normal exits have inconsistent hypotheses proves nothing
    from pyvc.state import Goal as _Goal
    by_contract = {}
    for g in goals:
        path = g.name.rsplit("@", 1)[-1]
        if g.kind == "post" and ":post:" in g.name:
            by_contract.setdefault(g.func, {}).setdefault(path, g)
        elif ":preserved:" in g.name:
            # the arbitrary iteration of a loop cut by an invariant must be reachable too
            loop = g.name.split(":preserved:")[0]
            by_contract.setdefault(loop + " (loop body)", {}).setdefault(path, g)
    probes = []
    for fk, paths in by_contract.items():
        for path, g in list(paths.items())[:6]:
            pg = _Goal("reach:%s@%s" % (fk, path), g.hyps, z3.BoolVal(False), "reach", fk)
            pg.func = fk
            probes.append(pg)
    if probes:
        smt.discharge(probes, timeout_s=3, stages=("z3-abs",))
    unreachable = sorted(fk for fk in by_contract
                         if all(pg.status == "unsat" for pg in probes if pg.func == fk))
    reach_report = {"contracts_with_a_reachable_exit": len(by_contract) - len(unreachable), "contracts_probed": len(by_contract),
                    "exit_paths_probed": len(probes), "all_exits_inconsistent": unreachable}
    vacuous += ["all exits unreachable: " + fk for fk in unreachable]
    open_goals = [g for g in goals if g.status != "unsat"]
    flaky = [g for g in open_goals if baseline.get(g.name) == smt.goal_hash(g)]
    changed = [g for g in open_goals if baseline.get(g.name) != smt.goal_hash(g)]
    if a.update_baseline:
        for k in [k for k in baseline if k.startswith(tuple(c.key + ":" for c in contracts)) or k.startswith("lemma:%s:" % a.prop)]:
            del baseline[k]
        for g in goals:
            if g.status == "unsat":
                baseline[g.name] = smt.goal_hash(g)
        json.dump(baseline, open(baseline_p, "w"), indent=0, sort_keys=True)
    # ---- assumed axioms are validated against CPython/numpy on every run
    meta0 = getattr(props_mod, "META", {}) if props_mod else {}
    axioms_report = None
    if meta0.get("validate"):
        pr = subprocess.run([VENV_PY, os.path.join(HERE, "bounded", "axioms_check.py"), "--which", ",".join(meta0["validate"])],
                            capture_output=True, text=True, cwd=HERE)
        try:
            axioms_report = json.loads(pr.stdout.strip().splitlines()[-1])
        except Exception:
            axioms_report = {"n_failures": -1, "error": (pr.stdout + pr.stderr)[-500:]}
    # ---- bounded stand-in / CPython cross-check
    bounded = None if a.no_bounded else run_bounded(a.prop, a.tier, a.seed, a.repo)
    known = load_known()
    violations, known_lines = [], []
    rdir = os.path.join(HERE, "replays", a.prop)
    crash = False
    if bounded is not None:
        if bounded.get("crash"):
            crash = True
        else:
            seen_known = set()
            for f in bounded["failures"]:
                k = known_match(known, a.prop, f)
                if k is not None:
                    if k["id"] not in seen_known:
                        seen_known.add(k["id"])
                        known_lines.append("KNOWN-FINDING: property=%s %s [%s]" % (a.prop, k["what"], k["id"]))
                    continue
                violations.append(f)
    vio_lines = []
    seen = set()
    os.makedirs(rdir, exist_ok=True)
    # ---- solver counterexamples (status sat) replayed against the real code
    replayed = set()
    for g in [g for g in open_goals if g.status == "sat" and getattr(g, "native_replay", None)]:
        import z3 as _z3
        sol = _z3.Solver(); sol.set("timeout", 20000)
        sol.from_string(g.to_smt2())
        if str(sol.check()) != "sat":
            continue
        m = sol.model()
        req = dict(g.native_replay)
        val = None
        for d_ in m.decls():
            if d_.name() == req["model_var"]:
                v_ = m[d_]
                if _z3.is_string_value(v_):
                    from pyvc.values import pystr as _pystr
                    val = _pystr(v_)
                else:
                    val = str(v_)
        if val is None:
            continue
        req[req["as"]] = val
        env = dict(os.environ, VERIF_REPO=a.repo); env.pop("PYTHONPATH", None)
        pr = subprocess.run([VENV_PY, os.path.join(HERE, "bounded", "replay_lemma.py"), json.dumps(req)], capture_output=True, text=True, env=env, cwd=SCRATCH if os.path.isdir(SCRATCH) else "/var/tmp")
        try:
            rr = json.loads(pr.stdout.strip().splitlines()[-1])
        except Exception:
            rr = {"reproduced": False, "detail": (pr.stdout + pr.stderr)[-300:]}
        if rr.get("reproduced"):
            name = re.sub(r"[^A-Za-z0-9_.=+-]+", "_", g.name)[:120]
            path = os.path.join(rdir, "counterexample_" + name + ".json")
            json.dump({"property": a.prop, "kind": "solver-counterexample-replayed-natively", "obligation": g.name,
                       "counterexample": {req["model_var"]: val}, "native": rr, "replay_request": req,
                       "replay_cmd": "VERIF_REPO=%s %s %s '%s'" % (a.repo, VENV_PY, os.path.join(HERE, "bounded", "replay_lemma.py"), json.dumps(req))},
                      open(path, "w"), indent=1)
            vio_lines.append("VIOLATION property=%s replay=%s" % (a.prop, path))
            replayed.add(g.name)
    changed = [g for g in changed if g.name not in replayed]
    for f in violations:
        kk = f["clause"] + "|" + f["klass"]
        if kk in seen:
            continue
        seen.add(kk)
        name = re.sub(r"[^A-Za-z0-9_.=+-]+", "_", kk)[:120]
        path = os.path.join(rdir, name + ".json")
        json.dump({"property": a.prop, "kind": "native-failing-input", "replay": f,
                   "replay_cmd": "./vcheck %s --replay %s" % (a.prop, path),
                   "undischarged_obligations": [g.name for g in changed][:20]}, open(path, "w"), indent=1)
        vio_lines.append("VIOLATION property=%s replay=%s" % (a.prop, path))
    if changed and not vio_lines:
        # an obligation that is no longer discharged and no native failing input
        g0 = changed[0]
        name = re.sub(r"[^A-Za-z0-9_.=+-]+", "_", g0.name)[:120]
        path = os.path.join(rdir, "obligation_" + name + ".json")
        json.dump({"property": a.prop, "kind": "undischarged-obligation", "obligation": g0.name,
                   "all_undischarged": [g.name for g in changed],
                   "function": g0.func, "line": g0.line,
                   "solver_output": "z3: %s (%s) %.1fs; cvc5: %s" % (g0.status, getattr(g0, "reason", ""), g0.time, getattr(g0, "cvc5", None)),
                   "smt2_sha": smt.goal_hash(g0),
                   "note": "the obligation was generated from the current source and is not discharged by z3 or cvc5; "
                           "it differs from (or is absent from) the committed baseline of discharged obligations; "
                           "the bounded run of the same contract found no failing input"}, open(path, "w"), indent=1)
        vio_lines.append("VIOLATION property=%s replay=%s no-failing-input-found" % (a.prop, path))
    # ---- verdict
    bad_axioms = bool(axioms_report) and axioms_report.get("n_failures", 0) != 0
    if vacuous or crash or bad_axioms:
        code = 3
    elif vio_lines:
        code = 1
    elif flaky:
        code = 2
    else:
        code = 0
    # ---- evidence
    n_ob = len(goals)
    if n_ob == 0 and not out_of_reach:
        # no contract and no lemma produced a single obligation: the check would "pass" on nothing
        print("CHECKER-ERROR no obligations were generated for %s" % a.prop)
        return 3
    n_dis = sum(1 for g in goals if g.status == "unsat")
    by_solver = {}
    for g in goals:
        if g.status == "unsat":
            by_solver[g.solver] = by_solver.get(g.solver, 0) + 1
    meta = getattr(props_mod, "META", {}) if props_mod else {}
    assumptions = sorted(set(E.notes)) + ["axiom: " + ax[0] for ax in REG.axioms] + list(meta.get("assumptions", []))
    assumptions.append("T-enc: the encoder's model of Python (DESIGN 2.2/2.6); termination not proved")
    level = meta.get("level", "other")
    if out_of_reach and level == "proof":
        level = "other"
    samples = [{"obligation": g.name, "status": g.status, "solver": g.solver, "time_s": round(g.time, 3)} for g in goals[:3]]
    if bounded and not bounded.get("crash"):
        samples += bounded.get("samples", [])[:4]
    if not samples:
        samples = [{"note": "no obligations and no bounded cases"}]
    cov = {
        "obligations": n_ob, "discharged": n_dis,
        "checker_cmd": "./vcheck %s --tier %s" % (a.prop, a.tier),
        "trusted_base": ["T-enc (pyvc encoding of Python)", "z3 5.1 / cvc5 1.0.3"] + list(meta.get("trusted", [])),
        "discharged_by": by_solver,
        "solver_time_s": {"z3": round(stats["z3_time"], 2), "cvc5": round(stats["cvc5_time"], 2)},
        "functions_under_contract": per_contract,
        "lemma_obligations": len(lemma_goals),
        "out_of_reach": out_of_reach,
        "undischarged": [{"name": g.name, "status": g.status, "in_baseline": baseline.get(g.name) == smt.goal_hash(g)} for g in open_goals][:50],
        "inlined_functions": sorted(E.inlined),
        "contracts_used_at_call_sites": sorted(E.used_contracts),
        "vacuous_preconditions": vacuous,
        "exit_path_reachability": reach_report,
        "paths": E.npaths,
        "evaluations": (bounded or {}).get("evaluations", 0) if bounded and not bounded.get("crash") else 0,
        "distinct_nontrivial": (bounded or {}).get("distinct_nontrivial", 0) if bounded and not bounded.get("crash") else 0,
        "rule": (bounded or {}).get("rule", "no bounded harness for this property") if bounded else "no bounded harness",
        "bounded": {k: (bounded or {}).get(k) for k in ("domain", "bound", "exhaustive", "failure_counts", "notes", "wall_s")} if bounded else None,
        "samples": samples,
        "explanation": meta.get("explanation", "") or "contracts on the real functions discharged by z3/cvc5 per path and clause; "
                       "bounded run of the same clauses on the real code as stand-in / CPython cross-check",
        "known_findings_reported": known_lines,
        "assumed_axioms_validated_natively": axioms_report,
        "exit_code": code,
    }
    if bounded and bounded.get("crash"):
        cov["bounded_crash"] = bounded
    ev = {"property_id": a.prop, "tier": a.tier, "seed": a.seed, "level": level, "coverage": cov,
          "assumptions": assumptions, "wall_s": round(time.time() - t0, 2), "violations": len(vio_lines)}
    if not a.no_evidence:
        os.makedirs(os.path.join(HERE, "evidence"), exist_ok=True)
        json.dump(ev, open(os.path.join(HERE, "evidence", a.prop + ".json"), "w"), indent=1, default=str)
    # ---- report
    print("reachability: %d of %d contracts with postconditions have a consistent normal exit (%d exit paths probed)" % (
        reach_report["contracts_with_a_reachable_exit"], reach_report["contracts_probed"], reach_report["exit_paths_probed"]))
    print("%s tier=%s: %d/%d obligations discharged (%s), %d contracts, %d out of reach, bounded evaluations=%s, %.1fs"
          % (a.prop, a.tier, n_dis, n_ob, by_solver, len(per_contract), len(out_of_reach), cov["evaluations"], time.time() - t0))
    for o in out_of_reach:
        print("OUT-OF-REACH %s: %s" % (o["contract"], o["reason"]))
    for g in open_goals[:30]:
        print("UNDISCHARGED %s [%s]%s" % (g.name, g.status, " (same text as baseline: solver flake)" if g in flaky else ""))
    if vacuous:
        print("CHECKER-ERROR vacuous precondition(s): %s" % vacuous)
    if bad_axioms:
        print("CHECKER-ERROR an assumed axiom is refuted by CPython/numpy: %s" % (axioms_report,))
    if crash:
        print("CHECKER-ERROR bounded harness crashed:\n%s" % bounded.get("stderr", ""))
    for l in known_lines:
        print(l)
    for l in vio_lines:
        print(l)
    if code == 2:
        print("UNDECIDED: obligations above are textually identical to discharged baseline ones but the solvers timed out")
    return code


if __name__ == "__main__":
    try:
        sys.exit(main())
    except SystemExit:
        raise
    except BaseException:
        traceback.print_exc()
        sys.exit(3)
